#!/bin/sh
# runs every claimed check on the current tree (quick tier) and prints one line per property
cd "$(dirname "$0")/.."
for p in $(python3 -c "import json;print(' '.join(c['property_id'] for c in json.load(open('MANIFEST.json'))['checks']))"); do
  out=$(./check $p --tier ${1:-quick} 2>&1); rc=$?
  echo "$p exit=$rc $(echo "$out" | grep '^govc:' | sed 's/govc: property=[A-Z0-9]* //') $(echo "$out" | grep -c '^KNOWN-FINDING') known $(echo "$out" | grep -c '^VIOLATION') violations $(echo "$out" | grep -c '^UNDECIDED') undecided"
done
