#!/bin/sh
# usage: tools/mkmutant2.sh <Cnn> <name> <expect-substring> <file-in-repo> <python-expr over s>   e.g. "s.replace('a','b',1)"
# makes a must-fail patch from an edit of ONE file on a scratch copy (never touches /repo), checks that it builds
set -e
prop=$1; name=$2; expect=$3; file=$4; expr=$5
s=${VERIF_SCRATCH:-/var/tmp/verif-scratch}/mk-$$; rm -rf $s; mkdir -p $s/a $s/b
rsync -a --exclude .git /repo/ $s/b/
mkdir -p $s/a/$(dirname $file); cp /repo/$file $s/a/$file
python3 - "$s/b/$file" "$expr" <<'PY'
import sys
p, expr = sys.argv[1], sys.argv[2]
s = open(p).read()
t = eval(expr)
assert t != s, "edit changed nothing"
open(p, 'w').write(t)
PY
( cd $s/b && GOFLAGS=-mod=mod GOPROXY=off GOSUMDB=off GOTOOLCHAIN=local go build ./... ) || { echo "does not build"; rm -rf $s; exit 1; }
d=/verif/selftest/mutants/$prop; mkdir -p $d
{ echo "# expect: $expect"; (cd $s && diff -u a/$file b/$file) || true; } > $d/$name.patch
rm -rf $s
echo "wrote $d/$name.patch"
