#!/bin/sh
# usage: tools/mkmutant.sh <kind:mutants|benign> <Cnn> <name> <expect-substring>
# run after editing source files in /repo: captures the diff of everything except contract files, restores those files
set -e
kind=$1; prop=$2; name=$3; expect=$4
d=/verif/selftest/$kind/$prop; mkdir -p $d
files=$(git -C /repo diff --name-only | grep -v zz_contracts_verif.go || true)
[ -n "$files" ] || { echo "no source changes in /repo"; exit 1; }
{ echo "# expect: $expect"; git -C /repo diff -- $files; } > $d/$name.patch
git -C /repo checkout -- $files
echo "wrote $d/$name.patch"
