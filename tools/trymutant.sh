#!/bin/sh
# usage: tools/trymutant.sh <patch> <Cnn>   applies the patch to /repo, runs the check, restores /repo, prints replay summaries
set -e
p=$(realpath $1); cd /repo; patch -p1 -s --no-backup-if-mismatch < $p; cd /verif
bin/govc check $2 2>&1 | grep "VIOLATION\|govc:\|KNOWN" || true
cd /repo; git checkout -- . ; cd /verif
python3 - $2 <<'PY'
import json,glob,sys
for f in sorted(glob.glob('/verif/replays/%s/*.json'%sys.argv[1])):
    d=json.load(open(f)); print(d['obligation']); print('   ',{k:d.get(k) for k in ['failing_input_found','refutation_status','replay_note','model','replay_outcome']})
    if d.get('replay_outcome') in ('error',): print(d.get('replay_output','')[:1500])
PY
