#!/bin/sh
# usage: tools/trymutant.sh <patch> <Cnn>   applies the patch to a scratch copy of /repo (outside /repo and /verif), runs the
# property's check on that copy, removes the copy, prints replay summaries. /repo itself is not touched.
set -e
p=$(realpath $1); prop=$2
s=${VERIF_SCRATCH:-/var/tmp/verif-scratch}/try-$$; rm -rf $s; mkdir -p $s
rsync -a --exclude .git /repo/ $s/repo/
patch -p1 -s --no-backup-if-mismatch -d $s/repo -i $p
cd /verif
bin/govc check $prop --repo $s/repo --verif /verif --out $s/out 2>&1 | grep "VIOLATION\|govc:\|KNOWN\|UNDECIDED" || true
python3 - $s/out/replays/$prop <<'PY'
import json,glob,sys
for f in sorted(glob.glob(sys.argv[1]+'/*.json')):
    d=json.load(open(f)); print(d['obligation']); print('   ',{k:d.get(k) for k in ['failing_input_found','refutation_status','replay_note','replay_outcome']})
PY
rm -rf $s
