#!/bin/sh
# usage: tools/intake_seed.sh <seed-id> <Cnn> <worktree> <pkgdir> <run-pattern>
# copies <worktree>/_seed into seeded/<seed-id>, validates it in the worktree (suite passes, demo fails with / passes
# without the change), then runs the property's check against a scratch copy of /repo with the patch applied
set -e
id=$1; prop=$2; wt=$3; pkg=$4; pat=$5
d=/verif/seeded/$id; mkdir -p $d
cp $wt/_seed/patch.diff $wt/_seed/demo_test.go $d/; cp $wt/_seed/notes.md $d/ 2>/dev/null || true
echo "== validate"; /verif/tools/validate_seed.sh $d $wt $pkg "$pat"
echo "== check $prop with the change applied to a scratch copy of /repo"
/verif/tools/trymutant.sh $d/patch.diff $prop | grep "VIOLATION\|govc:\|KNOWN\|UNDECIDED" | cut -c1-330 || true
