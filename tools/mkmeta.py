#!/usr/bin/env python3
"""usage: tools/mkmeta.py <seed-id> <Cnn> <pkgdir> <run-pattern> <round> <what> <needs> <detected_by or ''> <expect-substring or ''> [when]"""
import json, sys
sid, prop, pkg, pat, rnd, what, needs, det, exp = sys.argv[1:10]
when = sys.argv[10] if len(sys.argv) > 10 else ''
m = {"id": sid, "property": prop, "what": what, "needs_to_manifest": needs,
     "source": "independent sub-agent given only the property text and a scratch worktree without the contract files (round %s)" % rnd,
     "validated": "tools/validate_seed.sh seeded/%s <scratch worktree> %s %s : (a) suite passes with the change, (b) demonstration fails with it, (c) demonstration passes without it - all three confirmed" % (sid, pkg, pat),
     "demo_pkg": pkg, "demo_run": pat}
if det:
    m["detected_by"] = det + ((" (" + when + ")") if when else '')
    m["expect_obligation"] = exp
else:
    m["detected_by"] = None
json.dump(m, open('/verif/seeded/%s/meta.json' % sid, 'w'), indent=1)
