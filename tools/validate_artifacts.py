#!/opt/veriftools/pyvenv/bin/python3
"""Validates MANIFEST.json and every evidence file against the schemas, and that each evidence level matches the claimed
category and (for proof) that every obligation was discharged. Run before committing (evidence written while a mutant
was applied to /repo must never be committed)."""
import glob, json, sys, jsonschema
m = json.load(open('/verif/MANIFEST.json')); jsonschema.validate(m, json.load(open('/root/.vp/MANIFEST.schema.json')))
es = json.load(open('/root/.vp/EVIDENCE.schema.json'))
bad = 0
for c in m['checks']:
    f = '/verif/' + c['evidence_file']
    e = json.load(open(f)); jsonschema.validate(e, es)
    ok = e['level'] == c['level_claimed']['category'] and (e['level'] != 'proof' or e['coverage']['discharged'] == e['coverage']['obligations']) and e['violations'] == 0
    if not ok:
        bad += 1
        print('MISMATCH', c['property_id'], e['level'], c['level_claimed']['category'], e['coverage']['discharged'], e['coverage']['obligations'], e['violations'])
print('artifacts ok' if not bad else 'artifacts BAD')
sys.exit(1 if bad else 0)
