#!/usr/bin/env python3
"""Engine self-test.

  1. prelude consistency: no solver may answer `unsat` on the bare prelude (an inconsistent axiom set proves everything)
  2. must-fail corpus: every selftest/mutants/<Cnn>/*.patch is applied to a scratch copy of /repo (outside /repo and
     /verif); the check for <Cnn> must exit 1 and report an obligation whose name contains the `# expect:` string
  3. benign corpus: selftest/benign/<Cnn>/*.patch must still verify (exit 0, no VIOLATION)
  4. seeded corpus (seeded/<id>/patch.diff with meta.json): same as 2, expectation optional
Scratch copies live under $VERIF_SCRATCH (default /var/tmp/verif-scratch) and are removed after each patch.
"""
import glob, json, os, re, shutil, subprocess, sys, concurrent.futures
ROOT = os.path.dirname(os.path.dirname(os.path.abspath(__file__)))
SCRATCH = os.path.join(os.environ.get('VERIF_SCRATCH', '/var/tmp/verif-scratch'), str(os.getpid()))
REPO = os.environ.get('VERIF_REPO', '/repo')
ENV = dict(os.environ, GOFLAGS='-mod=mod', GOPROXY='off', GOSUMDB='off', GOTOOLCHAIN='local')

def run(cmd, **kw):
    return subprocess.run(cmd, capture_output=True, text=True, env=ENV, **kw)

def prelude_check():
    ok = True
    p = run([os.path.join(ROOT, 'bin/govc'), 'prelude'])
    f = os.path.join(SCRATCH, 'prelude.smt2')
    os.makedirs(SCRATCH, exist_ok=True)
    probes = open(os.path.join(ROOT, 'selftest/prelude_probes.smt2')).read()
    open(f, 'w').write(p.stdout.replace('(check-sat)\n', '') + probes)
    for s, argv in (('z3-new', ['z3-new', '-T:20', f]), ('z3', ['z3', '-T:20', f]), ('cvc5', ['cvc5', '--tlimit=20000', f])):
        out = run(argv).stdout.strip().split('\n')[0]
        print('prelude %-7s %s' % (s, out))
        if out == 'unsat':
            ok = False
    os.remove(f)
    return ok

def one(kind, prop, patch, expect):
    name = '%s-%s-%s' % (kind, prop, os.path.basename(os.path.dirname(patch)) if os.path.basename(patch) == 'patch.diff' else os.path.basename(patch))
    d = os.path.join(SCRATCH, re.sub(r'[^A-Za-z0-9_.-]', '_', name))
    shutil.rmtree(d, ignore_errors=True)
    os.makedirs(d)
    repo = os.path.join(d, 'repo')
    subprocess.run(['rsync', '-a', '--exclude', '.git', REPO + '/', repo + '/'], check=True)
    ap = subprocess.run(['patch', '-p1', '-s', '--no-backup-if-mismatch', '-d', repo, '-i', os.path.abspath(patch)], capture_output=True, text=True)
    if ap.returncode != 0:
        shutil.rmtree(d, ignore_errors=True)
        return (name, False, 'patch does not apply: ' + ap.stdout[-300:] + ap.stderr[-300:])
    r = run([os.path.join(ROOT, 'bin/govc'), 'check', prop, '--repo', repo, '--verif', ROOT, '--out', os.path.join(d, 'out')])
    viol = [l for l in r.stdout.split('\n') if l.startswith('VIOLATION')]
    shutil.rmtree(d, ignore_errors=True)
    if kind == 'benign':
        ok = r.returncode == 0 and not viol
        return (name, ok, 'exit=%d %s' % (r.returncode, '; '.join(v[:160] for v in viol[:3])))
    ok = r.returncode == 1 and bool(viol)
    if ok and expect:
        ok = any(expect in v for v in viol)
    replayed = sum(1 for v in viol if not v.rstrip().endswith('no-failing-input-found'))
    return (name, ok, 'exit=%d replayed=%d/%d expect=%r got=%s' % (r.returncode, replayed, len(viol), expect, '; '.join(re.sub(r'.*obligation=', '', v)[:120] for v in viol[:4]) or r.stdout[-300:] + r.stderr[-300:]))

def main():
    only = sys.argv[1:] 
    jobs = []
    for patch in sorted(glob.glob(os.path.join(ROOT, 'selftest/mutants/*/*.patch'))):
        prop = os.path.basename(os.path.dirname(patch))
        m = re.search(r'^# expect: (.*)$', open(patch).read(), re.M)
        jobs.append(('mutant', prop, patch, m.group(1).strip() if m else ''))
    for patch in sorted(glob.glob(os.path.join(ROOT, 'selftest/benign/*/*.patch'))):
        jobs.append(('benign', os.path.basename(os.path.dirname(patch)), patch, ''))
    for meta in sorted(glob.glob(os.path.join(ROOT, 'seeded/*/meta.json'))):
        m = json.load(open(meta))
        if m.get('detected_by') is None:
            continue
        jobs.append(('seeded', m['property'], os.path.join(os.path.dirname(meta), 'patch.diff'), m.get('expect_obligation', '')))
    if only:
        jobs = [j for j in jobs if any(o in j[2] or o == j[1] for o in only)]
    ok = prelude_check()
    with concurrent.futures.ThreadPoolExecutor(max_workers=8) as ex:
        for name, good, info in ex.map(lambda j: one(*j), jobs):
            print('%-4s %s  %s' % ('ok' if good else 'FAIL', name, info))
            ok = ok and good
    shutil.rmtree(SCRATCH, ignore_errors=True)
    print('selftest:', 'ok' if ok else 'FAILED', '(%d cases)' % len(jobs))
    sys.exit(0 if ok else 1)

main()
