#!/usr/bin/env python3
"""Regenerates /verif/MANIFEST.json from tools/claims.json (one entry per claimed property)."""
import json, os, subprocess
root = os.path.dirname(os.path.dirname(os.path.abspath(__file__)))
props = [json.loads(l) for l in open(os.path.join(root, 'properties.jsonl'))]
claims = json.load(open(os.path.join(root, 'tools', 'claims.json')))
hooks = subprocess.run(['git', '-C', '/repo', 'log', '--format=%H %s'], capture_output=True, text=True).stdout.strip().split('\n')
hook_commits = [l.split()[0] for l in hooks if ' verif:' in ' ' + l.split(' ', 1)[1] or l.split(' ', 1)[1].startswith('verif:')]
checks = []
for p in props:
    c = claims.get(p['id'])
    if not c or not c.get('claimed'):
        continue
    checks.append({
        'property_id': p['id'],
        'quick_cmd': './check %s --tier quick' % p['id'],
        'thorough_cmd': './check %s --tier thorough' % p['id'],
        'evidence_file': 'evidence/%s.json' % p['id'],
        'replay_cmd_template': './check replay {path}',
        'engine': 'govc',
        'level_claimed': {'category': c.get('category', 'proof'), 'text': c['text'], 'design_ref': 'DESIGN.md Part I section I.5 (row ' + p['id'] + '), I.6, I.7'},
        'level_note': c['note'],
        'technique': 'contract-based deductive verification: contracts on the real functions (comment files under build tag verif), weakest-precondition style path VCs generated from go/ssa of the working tree, discharged by z3/cvc5',
    })
na = [{'property_id': p['id'], 'reason': claims.get(p['id'], {}).get('na_reason', 'contracts not completed yet (build in progress; see DESIGN.md section 7)')}
      for p in props if not claims.get(p['id'], {}).get('claimed')]
m = {
    'version': 1,
    'setup_cmd': './setup.sh',
    'hooks': {'guard': 'verif', 'enable': '-tags verif (the guarded files are comment-only contract files zz_contracts_verif.go; they add no code)',
              'baseline_off_cmd': 'cd /repo && go test -vet=off -count=1 ./...', 'source_commits': hook_commits, 'add_only': True},
    'engines': [{'name': 'govc', 'path': 'govc/', 'serves_properties': [c['property_id'] for c in checks],
                 'kind_free_text': 'contract-based deductive verifier for Go written for this task: go/ssa (naive form) of /repo -> per-path verification conditions -> z3-new 5.1.0 | z3 4.8.12 | cvc5 1.0.3'}],
    'checks': checks,
    'not_applicable': na,
    'notes': 'See DESIGN.md. Contracts live in /repo/**/zz_contracts_verif.go (build tag verif, comments only) and /verif/spec/*.spec (assumed contracts of dependencies). known_findings.json lists genuine defects (fixed or open).',
}
json.dump(m, open(os.path.join(root, 'MANIFEST.json'), 'w'), indent=1)
print('checks:', [c['property_id'] for c in checks])
