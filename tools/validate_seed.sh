#!/bin/sh
# usage: tools/validate_seed.sh <seed-dir> <worktree> <pkgdir> <run-pattern>
# confirms: (a) suite passes with the change, (b) demo fails with it, (c) demo passes without it
export GOFLAGS=-mod=mod GOPROXY=off GOSUMDB=off GOTOOLCHAIN=local
sd=$(cd $1 && pwd); wt=$2; pkg=$3; pat=$4
cd $wt || exit 2
git checkout -q -- . ; rm -f $pkg/zz_seed_demo_test.go
git apply $sd/patch.diff || { echo "patch does not apply"; exit 2; }
go build ./... || { echo "(a) build FAILED"; exit 1; }
a=$(go test -vet=off -count=1 ./... 2>&1 | grep -v "^ok\|no test files" | head -5)
[ -z "$a" ] && echo "(a) suite passes with change" || { echo "(a) FAILED: $a"; }
cp $sd/demo_test.go $pkg/zz_seed_demo_test.go
go test -vet=off -count=1 -run "$pat" ./$pkg/ >/var/tmp/seed_b.$$.txt 2>&1 && echo "(b) demo PASSED with change (bad)" || echo "(b) demo fails with change: $(grep -m2 -- '--- FAIL' /var/tmp/seed_b.$$.txt | tr '\n' ' ')"
git apply -R $sd/patch.diff
go test -vet=off -count=1 -run "$pat" ./$pkg/ >/var/tmp/seed_c.$$.txt 2>&1 && echo "(c) demo passes without change" || { echo "(c) demo FAILS without change (bad)"; tail -5 /var/tmp/seed_c.$$.txt; }
rm -f $pkg/zz_seed_demo_test.go; git checkout -q -- .
rm -f /var/tmp/seed_b.$$.txt /var/tmp/seed_c.$$.txt
