package main

// optgen: bootstrap helper that prints contract skeletons for option closures (reviewed and edited by
// hand before being committed as contract text; it is not part of any check).

import (
	"fmt"
	"go/constant"
	"go/token"
	"os"
	"sort"
	"strings"

	"golang.org/x/tools/go/ssa"
)

func cmdOptgen(args []string) int {
	v, err := NewVerifier("/repo", "/verif")
	if err != nil {
		fmt.Fprintln(os.Stderr, err)
		return 2
	}
	want := map[string]bool{}
	for _, a := range args {
		want[a] = true
	}
	var keys []string
	for k := range v.fnByKey {
		keys = append(keys, k)
	}
	sort.Strings(keys)
	for _, k := range keys {
		f := v.fnByKey[k]
		if f.Parent() == nil || f.Blocks == nil || f.Pkg != nil && false {
			continue
		}
		pk := f.Parent().Pkg
		if pk == nil || !want[pk.Pkg.Name()] {
			continue
		}
		if len(f.Params) != 1 || f.Signature.Results().Len() != 1 || !strings.HasSuffix(k, "$1") {
			continue
		}
		if f.Params[0].Type().String() != "interface{}" && f.Params[0].Type().String() != "any" {
			continue
		}
		printOptContract(v, k, f)
	}
	return 0
}

func valExpr(v ssa.Value) string {
	switch x := v.(type) {
	case *ssa.UnOp:
		if x.Op == token.MUL {
			switch a := x.X.(type) {
			case *ssa.FreeVar:
				return a.Name()
			case *ssa.Alloc:
				return a.Comment
			}
		}
	case *ssa.Const:
		if x.Value == nil {
			return "nil"
		}
		switch x.Value.Kind() {
		case constant.Bool:
			return fmt.Sprint(constant.BoolVal(x.Value))
		case constant.String:
			return fmt.Sprintf("%q", constant.StringVal(x.Value))
		default:
			return x.Value.ExactString()
		}
	case *ssa.Convert:
		return valExpr(x.X)
	case *ssa.ChangeType:
		return valExpr(x.X)
	}
	return "?" + v.String()
}

func printOptContract(v *Verifier, key string, f *ssa.Function) {
	type asg struct{ typ, field, val string }
	var asgs []asg
	var types_ []string
	for _, b := range f.Blocks {
		for _, in := range b.Instrs {
			switch x := in.(type) {
			case *ssa.TypeAssert:
				types_ = append(types_, typeKey(x.AssertedType))
			case *ssa.Store:
				if fa, ok := x.Addr.(*ssa.FieldAddr); ok {
					s, owner := structOf(fa.X.Type())
					if s != nil {
						asgs = append(asgs, asg{"*" + typeKey(owner), s.Field(fa.Field).Name(), valExpr(x.Val)})
					}
				}
			}
		}
	}
	short := strings.SplitN(key, ".", 2)[1]
	fmt.Printf("//@ func %s [C19]\n", short)
	seen := map[string]bool{}
	var mods []string
	for _, a := range asgs {
		m := fmt.Sprintf("as(o, %q).%s", a.typ, a.field)
		if !seen[m] {
			seen[m] = true
			mods = append(mods, m)
		}
	}
	if len(mods) == 0 {
		fmt.Printf("//@   modifies nothing\n")
	} else {
		fmt.Printf("//@   modifies %s\n", strings.Join(mods, ", "))
	}
	byType := map[string][]asg{}
	for _, a := range asgs {
		byType[a.typ] = append(byType[a.typ], a)
	}
	var tl []string
	for _, t := range types_ {
		if !seen["T"+t] {
			seen["T"+t] = true
			tl = append(tl, t)
		}
	}
	var notAny []string
	for _, t := range tl {
		var eqs []string
		for _, a := range byType[t] {
			eqs = append(eqs, fmt.Sprintf("as(o, %q).%s == %s", t, a.field, a.val))
		}
		if len(eqs) == 0 {
			eqs = []string{"true"}
		}
		fmt.Printf("//@   ensures #applies typeis(o, %q) ==> result == nil && %s\n", t, strings.Join(eqs, " && "))
		notAny = append(notAny, fmt.Sprintf("!typeis(o, %q)", t))
	}
	fmt.Printf("//@   ensures #ignored %s ==> result == util.ErrIgnoredOption\n\n", strings.Join(notAny, " && "))
}

// cmdOptdef prints `defines` contracts for option constructors (bootstrap helper, reviewed by hand)
func cmdOptdef(args []string) int {
	v, err := NewVerifier("/repo", "/verif")
	if err != nil {
		fmt.Fprintln(os.Stderr, err)
		return 2
	}
	var keys []string
	for k := range v.fnByKey {
		keys = append(keys, k)
	}
	sort.Strings(keys)
	for _, k := range keys {
		f := v.fnByKey[k]
		if f.Parent() != nil || f.Blocks == nil || f.Pkg == nil || f.Pkg.Pkg.Name() != args[0] || !strings.HasPrefix(f.Name(), "With") {
			continue
		}
		if f.Signature.Results().Len() != 1 || !strings.HasSuffix(f.Signature.Results().At(0).Type().String(), "util.Option") {
			continue
		}
		var ps, names []string
		for _, p := range f.Params {
			so, _ := sortOf(p.Type())
			tn := map[Sort]string{SInt: "int", SBool: "bool", SBytes: "string", SSeqB: "[]string", SSeqI: "[]ref"}[so]
			if so == SInt && !isInteger(p.Type()) {
				tn = "ref"
			}
			ps = append(ps, p.Name()+" "+tn)
			names = append(names, p.Name())
		}
		name := "opt_" + args[0] + "_" + f.Name()
		fmt.Printf("//@ spec %s(%s) ref\n//@ func %s [C19]\n//@   modifies alloc()\n//@   defines result == %s(%s)\n\n", name, strings.Join(ps, ", "), f.Name(), name, strings.Join(names, ", "))
	}
	return 0
}
