package main

// SMT terms, sorts and the fixed prelude (sequence theory over uninterpreted sorts).

import (
	"crypto/sha1"
	"fmt"
	"go/types"
	"sort"
	"strings"
)

type Sort string

const (
	SInt   Sort = "Int"
	SBool  Sort = "Bool"
	SBytes Sort = "Bytes" // []byte, string
	SSeqB  Sort = "SeqB"  // []string, [][]byte
	SSeqI  Sort = "SeqI"  // []int, []*T, []iface, []func
	SSeqC  Sort = "SeqC"  // [][]string, [][][]byte (regexp FindAllSubmatch); its theory is added only to queries that use it
	SNone  Sort = ""      // no value (unit / tuple)
)

func (s Sort) isSeq() bool { return s == SBytes || s == SSeqB || s == SSeqI || s == SSeqC }

// suffix used in function names of the sequence theory
func (s Sort) sfx() string {
	switch s {
	case SBytes:
		return "Y"
	case SSeqB:
		return "B"
	case SSeqI:
		return "I"
	case SSeqC:
		return "C"
	}
	panic(unsupported{"a sequence nested deeper than the encoding supports (sort " + string(s) + " where a sequence sort is needed, e.g. [][][]byte)"})
}

func (s Sort) elem() Sort {
	switch s {
	case SBytes, SSeqI:
		return SInt
	case SSeqB:
		return SBytes
	case SSeqC:
		return SSeqB
	}
	panic("not a seq sort: " + string(s))
}

func seqOf(elem Sort) (Sort, bool) {
	switch elem {
	case SInt:
		return SSeqI, true
	case SBytes:
		return SSeqB, true
	case SSeqB:
		return SSeqC, true
	}
	return SNone, false
}

// PreludeC: the sequence theory for SeqC (sequences of SeqB), appended only to queries that mention it
func PreludeC() string {
	var b strings.Builder
	b.WriteString("(declare-sort SeqC 0)\n")
	b.WriteString(seqPrelude("C", "SeqC", "SeqB", ""))
	b.WriteString("(declare-fun seqeq_C (SeqC SeqC) Bool)\n(assert (forall ((a SeqC) (b SeqC)) (! (=> (seqeq_C a b) (= a b)) :pattern ((seqeq_C a b)))))\n")
	b.WriteString("(declare-fun inj_C (SeqC) Int)\n(declare-fun prj_C (Int) SeqC)\n(assert (forall ((s SeqC)) (! (= (prj_C (inj_C s)) s) :pattern ((inj_C s)))))\n(declare-fun touch_SeqB (SeqB) Bool)\n")
	return b.String()
}

type Term struct {
	S    string
	Sort Sort
	GoT  types.Type // optional, for field resolution in contracts
}

func (t Term) String() string { return t.S }

func mk(sort Sort, f string, a ...interface{}) Term {
	return Term{S: fmt.Sprintf(f, a...), Sort: sort}
}

func mkInt(n int64) Term {
	if n < 0 {
		return Term{S: fmt.Sprintf("(- %d)", -n), Sort: SInt}
	}
	return Term{S: fmt.Sprintf("%d", n), Sort: SInt}
}

var (
	tTrue  = Term{S: "true", Sort: SBool}
	tFalse = Term{S: "false", Sort: SBool}
	tZero  = Term{S: "0", Sort: SInt}
)

func mkBool(b bool) Term {
	if b {
		return tTrue
	}
	return tFalse
}

func and(ts ...Term) Term {
	var parts []string
	for _, t := range ts {
		if t.S == "true" {
			continue
		}
		if t.S == "false" {
			return tFalse
		}
		parts = append(parts, t.S)
	}
	switch len(parts) {
	case 0:
		return tTrue
	case 1:
		return Term{S: parts[0], Sort: SBool}
	}
	return Term{S: "(and " + strings.Join(parts, " ") + ")", Sort: SBool}
}

func or(ts ...Term) Term {
	var parts []string
	for _, t := range ts {
		if t.S == "false" {
			continue
		}
		if t.S == "true" {
			return tTrue
		}
		parts = append(parts, t.S)
	}
	switch len(parts) {
	case 0:
		return tFalse
	case 1:
		return Term{S: parts[0], Sort: SBool}
	}
	return Term{S: "(or " + strings.Join(parts, " ") + ")", Sort: SBool}
}

func not(t Term) Term {
	switch t.S {
	case "true":
		return tFalse
	case "false":
		return tTrue
	}
	if strings.HasPrefix(t.S, "(not ") && balancedPrefix(t.S) {
		return Term{S: t.S[5 : len(t.S)-1], Sort: SBool}
	}
	return Term{S: "(not " + t.S + ")", Sort: SBool}
}

// balancedPrefix reports whether s is exactly one parenthesised term
func balancedPrefix(s string) bool {
	d := 0
	for i, c := range s {
		if c == '(' {
			d++
		} else if c == ')' {
			d--
			if d == 0 && i != len(s)-1 {
				return false
			}
		}
	}
	return d == 0
}

func implies(a, b Term) Term {
	if a.S == "true" {
		return b
	}
	if a.S == "false" || b.S == "true" {
		return tTrue
	}
	return Term{S: "(=> " + a.S + " " + b.S + ")", Sort: SBool}
}

func eq(a, b Term) Term {
	if a.S == b.S {
		return tTrue
	}
	return Term{S: "(= " + a.S + " " + b.S + ")", Sort: SBool}
}

func ite(c, a, b Term) Term {
	if c.S == "true" {
		return a
	}
	if c.S == "false" {
		return b
	}
	return Term{S: "(ite " + c.S + " " + a.S + " " + b.S + ")", Sort: a.Sort, GoT: a.GoT}
}

func lenOf(s Term) Term   { return mk(SInt, "(len_%s %s)", s.Sort.sfx(), s.S) }
func capOf(s Term) Term   { return mk(SInt, "(cap_%s %s)", s.Sort.sfx(), s.S) }
func atOf(s, i Term) Term { return mk(s.Sort.elem(), "(at_%s %s %s)", s.Sort.sfx(), s.S, i.S) }

// theLits: the literal table of the running verifier (for folding concatenations of literals)
var theLits *LitTable

// seqLit: sequences whose elements are all known terms (composite literals), by term text
var seqLit = map[string][]Term{}

func catOf(a, b Term) Term {
	if a.S == emptyOf(a.Sort).S || a.S == nilOf(a.Sort).S {
		return Term{S: b.S, Sort: b.Sort, GoT: a.GoT}
	}
	if b.S == emptyOf(b.Sort).S {
		return a
	}
	if a.Sort == SBytes && theLits != nil {
		if x, ok := theLits.content(a.S); ok {
			if y, ok := theLits.content(b.S); ok {
				r := theLits.Bytes(x + y)
				r.GoT = a.GoT
				return r
			}
		}
	}
	return Term{S: fmt.Sprintf("(cat_%s %s %s)", a.Sort.sfx(), a.S, b.S), Sort: a.Sort, GoT: a.GoT}
}
func sliceOf(s, lo, hi Term) Term {
	return Term{S: fmt.Sprintf("(slice_%s %s %s %s)", s.Sort.sfx(), s.S, lo.S, hi.S), Sort: s.Sort, GoT: s.GoT}
}
func singleOf(seq Sort, e Term) Term { return mk(seq, "(single_%s %s)", seq.sfx(), e.S) }

type updRec struct{ base, idx, val Term }

// updInfo remembers the structure of upd terms so that reads at literal indices simplify syntactically
var updInfo = map[string]updRec{}

func updOf(s, i, v Term) Term {
	t := Term{S: fmt.Sprintf("(upd_%s %s %s %s)", s.Sort.sfx(), s.S, i.S, v.S), Sort: s.Sort, GoT: s.GoT}
	updInfo[t.S] = updRec{s, i, v}
	return t
}

func isIntLit(s string) bool {
	if s == "" {
		return false
	}
	for _, c := range s {
		if c < '0' || c > '9' {
			return false
		}
	}
	return true
}

// litElem returns the element at literal index k of a sequence built by literal-index updates, if known
func litElem(s Term, k string) (Term, bool) {
	for {
		r, ok := updInfo[s.S]
		if !ok || !isIntLit(r.idx.S) {
			return Term{}, false
		}
		if r.idx.S == k {
			return r.val, true
		}
		s = r.base
	}
}
func emptyOf(seq Sort) Term { return mk(seq, "empty_%s", seq.sfx()) }
func nilOf(seq Sort) Term   { return emptyOf(seq) }

type stoRec struct{ base, idx, val Term }

// stoInfo remembers the structure of store terms so that a read right after a write of the same
// (syntactically identical) index returns the written term itself
var stoInfo = map[string]stoRec{}

func sel(arr Term, idx Term, res Sort) Term {
	if r, ok := stoInfo[arr.S]; ok && r.idx.S == idx.S && r.val.Sort == res {
		return Term{S: r.val.S, Sort: res}
	}
	return mk(res, "(select %s %s)", arr.S, idx.S)
}
func sto(arr Term, idx Term, v Term) Term {
	t := Term{S: fmt.Sprintf("(store %s %s %s)", arr.S, idx.S, v.S), Sort: arr.Sort}
	stoInfo[t.S] = stoRec{arr, idx, v}
	return t
}

// ---------- prelude ----------

func seqPrelude(x string, seq, elem string, elemRange string) string {
	var b strings.Builder
	p := func(f string, a ...interface{}) { fmt.Fprintf(&b, f+"\n", a...) }
	r := strings.NewReplacer("%X", x, "%S", seq, "%E", elem)
	w := func(s string) { p("%s", r.Replace(s)) }
	w("(declare-fun len_%X (%S) Int)")
	w("(declare-fun cap_%X (%S) Int)")
	w("(declare-fun at_%X (%S Int) %E)")
	w("(declare-const empty_%X %S)")
	w("(declare-fun cat_%X (%S %S) %S)")
	w("(declare-fun slice_%X (%S Int Int) %S)")
	w("(declare-fun single_%X (%E) %S)")
	w("(declare-fun upd_%X (%S Int %E) %S)")
	w("(assert (= (len_%X empty_%X) 0))")
	w("(assert (forall ((s %S)) (! (>= (len_%X s) 0) :pattern ((len_%X s)))))")
	w("(assert (forall ((s %S)) (! (=> (= (len_%X s) 0) (= s empty_%X)) :pattern ((len_%X s)))))")
	w("(assert (forall ((s %S)) (! (>= (cap_%X s) (len_%X s)) :pattern ((cap_%X s)))))")
	w("(assert (forall ((a %S) (b %S)) (! (= (len_%X (cat_%X a b)) (+ (len_%X a) (len_%X b))) :pattern ((cat_%X a b)))))")
	w("(assert (forall ((a %S) (b %S) (t Int)) (! (=> (and (<= 0 t) (< t (len_%X a))) (= (at_%X (cat_%X a b) t) (at_%X a t))) :pattern ((at_%X (cat_%X a b) t)))))")
	w("(assert (forall ((a %S) (b %S) (t Int)) (! (=> (and (<= (len_%X a) t) (< t (+ (len_%X a) (len_%X b)))) (= (at_%X (cat_%X a b) t) (at_%X b (- t (len_%X a))))) :pattern ((at_%X (cat_%X a b) t)))))")
	w("(assert (forall ((a %S)) (! (= (cat_%X a empty_%X) a) :pattern ((cat_%X a empty_%X)))))")
	w("(assert (forall ((a %S) (b %S) (c %S)) (! (= (cat_%X (cat_%X a b) c) (cat_%X a (cat_%X b c))) :pattern ((cat_%X (cat_%X a b) c)))))")
	w("(assert (forall ((a %S)) (! (= (cat_%X empty_%X a) a) :pattern ((cat_%X empty_%X a)))))")
	w("(assert (forall ((a %S) (lo Int) (hi Int)) (! (=> (and (<= 0 lo) (<= lo hi)) (= (len_%X (slice_%X a lo hi)) (- hi lo))) :pattern ((slice_%X a lo hi)))))")
	w("(assert (forall ((a %S) (lo Int) (hi Int) (t Int)) (! (=> (and (<= 0 t) (< t (- hi lo))) (= (at_%X (slice_%X a lo hi) t) (at_%X a (+ lo t)))) :pattern ((at_%X (slice_%X a lo hi) t)))))")
	w("(assert (forall ((a %S)) (! (= (slice_%X a 0 (len_%X a)) a) :pattern ((slice_%X a 0 (len_%X a))))))")
	w("(assert (forall ((a %S) (lo Int) (hi Int) (lo2 Int) (hi2 Int)) (! (=> (and (<= 0 lo) (<= lo hi) (<= 0 lo2) (<= lo2 hi2) (<= hi2 (- hi lo))) (= (slice_%X (slice_%X a lo hi) lo2 hi2) (slice_%X a (+ lo lo2) (+ lo hi2)))) :pattern ((slice_%X (slice_%X a lo hi) lo2 hi2)))))")
	w("(assert (forall ((e %E)) (! (and (= (len_%X (single_%X e)) 1) (= (at_%X (single_%X e) 0) e)) :pattern ((single_%X e)))))")
	w("(assert (forall ((a %S) (i Int) (e %E)) (! (= (len_%X (upd_%X a i e)) (len_%X a)) :pattern ((upd_%X a i e)))))")
	w("(assert (forall ((a %S) (i Int) (e %E) (t Int)) (! (= (at_%X (upd_%X a i e) t) (ite (and (= t i) (<= 0 i) (< i (len_%X a))) e (at_%X a t))) :pattern ((at_%X (upd_%X a i e) t)))))")
	if elemRange != "" {
		w(elemRange)
	}
	return b.String()
}

func Prelude() string {
	var b strings.Builder
	b.WriteString("(declare-sort Bytes 0)\n(declare-sort SeqB 0)\n(declare-sort SeqI 0)\n")
	b.WriteString(seqPrelude("Y", "Bytes", "Int", ""))
	b.WriteString(seqPrelude("B", "SeqB", "Bytes", ""))
	b.WriteString(seqPrelude("I", "SeqI", "Int", ""))
	// extensionality, used only through seqeq_* in hypothesis position
	for _, x := range []struct{ x, s string }{{"Y", "Bytes"}, {"B", "SeqB"}, {"I", "SeqI"}} {
		fmt.Fprintf(&b, "(declare-fun seqeq_%s (%s %s) Bool)\n", x.x, x.s, x.s)
		fmt.Fprintf(&b, "(assert (forall ((a %s) (b %s)) (! (=> (seqeq_%s a b) (= a b)) :pattern ((seqeq_%s a b)))))\n", x.s, x.s, x.x, x.x)
	}
	// interfaces: box(typeid, payload)
	b.WriteString(`(declare-fun box (Int Int) Int)
(declare-fun dyntype (Int) Int)
(declare-fun payload (Int) Int)
(assert (forall ((t Int) (p Int)) (! (and (= (dyntype (box t p)) t) (= (payload (box t p)) p) (not (= (box t p) 0))) :pattern ((box t p)))))
(assert (= (dyntype 0) 0))
(assert (= (payload 0) 0))
(declare-fun inj_Y (Bytes) Int)
(declare-fun prj_Y (Int) Bytes)
(assert (forall ((s Bytes)) (! (= (prj_Y (inj_Y s)) s) :pattern ((inj_Y s)))))
(declare-fun inj_B (SeqB) Int)
(declare-fun prj_B (Int) SeqB)
(assert (forall ((s SeqB)) (! (= (prj_B (inj_B s)) s) :pattern ((inj_B s)))))
(declare-fun inj_I (SeqI) Int)
(declare-fun prj_I (Int) SeqI)
(assert (forall ((s SeqI)) (! (= (prj_I (inj_I s)) s) :pattern ((inj_I s)))))
(declare-fun inj_Bool (Bool) Int)
(declare-fun prj_Bool (Int) Bool)
(assert (forall ((s Bool)) (! (= (prj_Bool (inj_Bool s)) s) :pattern ((inj_Bool s)))))
(declare-fun errIs (Int Int) Bool)
(assert (forall ((e Int)) (! (errIs e e) :pattern ((errIs e e)))))
(declare-fun wraps (Int Int) Bool)
(assert (forall ((e Int) (w Int) (x Int)) (! (=> (and (wraps e w) (errIs w x)) (errIs e x)) :pattern ((wraps e w) (errIs w x)))))
(assert (forall ((e Int) (w Int)) (! (=> (wraps e w) (errIs e w)) :pattern ((wraps e w)))))
(declare-fun touch_Int (Int) Bool)
(declare-fun touch_Bytes (Bytes) Bool)
(declare-fun sub (Int Int) Int)
(assert (forall ((r Int) (f Int)) (! (=> (not (= r 0)) (not (= (sub r f) 0))) :pattern ((sub r f)))))
`)
	return b.String()
}

// ---------- literals ----------

type LitTable struct {
	byContent map[string]string
	byName    map[string]string
	order     []string
}

func NewLitTable() *LitTable {
	return &LitTable{byContent: map[string]string{}, byName: map[string]string{}}
}

func (lt *LitTable) content(name string) (string, bool) {
	if name == "empty_Y" {
		return "", true
	}
	c, ok := lt.byName[name]
	return c, ok
}

func (lt *LitTable) Bytes(s string) Term {
	if s == "" {
		return emptyOf(SBytes)
	}
	if n, ok := lt.byContent[s]; ok {
		return Term{S: n, Sort: SBytes}
	}
	h := sha1.Sum([]byte(s))
	n := fmt.Sprintf("lit_%x", h[:6])
	lt.byContent[s] = n
	lt.byName[n] = s
	lt.order = append(lt.order, s)
	return Term{S: n, Sort: SBytes}
}

// Decls returns declarations and ground facts for the literals mentioned in body
func (lt *LitTable) Decls(body string) string {
	var b strings.Builder
	var used []string
	for _, s := range lt.order {
		n := lt.byContent[s]
		if strings.Contains(body, n) {
			used = append(used, s)
		}
	}
	sort.Strings(used)
	for _, s := range used {
		n := lt.byContent[s]
		fmt.Fprintf(&b, "(declare-const %s Bytes)\n(assert (= (len_Y %s) %d))\n", n, n, len(s))
		if len(s) <= 512 {
			for i := 0; i < len(s); i++ {
				fmt.Fprintf(&b, "(assert (= (at_Y %s %d) %d))\n", n, i, s[i])
			}
		}
		if len(s) == 1 {
			// a one-byte literal is the same sequence as single(byte): `"\x1b"` and `bytes(27)` denote one term
			fmt.Fprintf(&b, "(assert (= %s (single_Y %d)))\n", n, s[0])
		}
	}
	// literals of equal length that differ: distinctness follows from at-facts; literals longer
	// than 512 bytes get an explicit distinct constraint
	var long []string
	for _, s := range used {
		if len(s) > 512 {
			long = append(long, lt.byContent[s])
		}
	}
	if len(long) > 1 {
		fmt.Fprintf(&b, "(assert (distinct %s))\n", strings.Join(long, " "))
	}
	return b.String()
}

func smtIdent(s string) string {
	var b strings.Builder
	for _, c := range s {
		switch {
		case c >= 'a' && c <= 'z', c >= 'A' && c <= 'Z', c >= '0' && c <= '9', c == '_':
			b.WriteRune(c)
		default:
			b.WriteRune('_')
		}
	}
	return b.String()
}
