package main

// Contract language: lexer, parser, contract-file reader.
//
// Contracts live in comment-only files (zz_contracts_verif.go in /repo packages,
// guarded by the build tag `verif`) and in /verif/spec/*.spec for dependencies.
// Only lines whose trimmed text starts with `//@` are read.

import (
	"fmt"
	"os"
	"strconv"
	"strings"
	"unicode"
)

// ---------- AST ----------

type Expr interface{ String() string }

type (
	EInt   struct{ V string }
	EStr   struct{ V string } // decoded bytes
	EBool  struct{ V bool }
	ENil   struct{}
	EIdent struct{ Name string }
	EUnary struct {
		Op string
		X  Expr
	}
	EBinary struct {
		Op   string
		L, R Expr
	}
	ECond  struct{ C, A, B Expr }
	EField struct {
		X    Expr
		Name string
	}
	EIndex struct{ X, I Expr }
	ESlice struct{ X, Lo, Hi Expr }
	ECall  struct {
		Fn   string
		Args []Expr
	}
	EOld   struct{ X Expr }
	EQuant struct {
		Forall   bool
		Vars     []Binder
		Triggers [][]Expr
		Body     Expr
	}
)

type Binder struct{ Name, Type string }

func (e EInt) String() string   { return e.V }
func (e EStr) String() string   { return strconv.Quote(e.V) }
func (e EBool) String() string  { return fmt.Sprint(e.V) }
func (e ENil) String() string   { return "nil" }
func (e EIdent) String() string { return e.Name }
func (e EUnary) String() string { return e.Op + e.X.String() }
func (e EBinary) String() string {
	return "(" + e.L.String() + " " + e.Op + " " + e.R.String() + ")"
}
func (e ECond) String() string {
	return "(" + e.C.String() + " ? " + e.A.String() + " : " + e.B.String() + ")"
}
func (e EField) String() string { return e.X.String() + "." + e.Name }
func (e EIndex) String() string { return e.X.String() + "[" + e.I.String() + "]" }
func (e ESlice) String() string {
	lo, hi := "", ""
	if e.Lo != nil {
		lo = e.Lo.String()
	}
	if e.Hi != nil {
		hi = e.Hi.String()
	}
	return e.X.String() + "[" + lo + ":" + hi + "]"
}
func (e ECall) String() string {
	var a []string
	for _, x := range e.Args {
		a = append(a, x.String())
	}
	return e.Fn + "(" + strings.Join(a, ", ") + ")"
}
func (e EOld) String() string { return "old(" + e.X.String() + ")" }
func (e EQuant) String() string {
	q := "exists"
	if e.Forall {
		q = "forall"
	}
	var v []string
	for _, b := range e.Vars {
		v = append(v, b.Name+" "+b.Type)
	}
	return "(" + q + " " + strings.Join(v, ", ") + " :: " + e.Body.String() + ")"
}

// ---------- lexer ----------

type ltok struct {
	kind string // int str char ident op eof
	text string
}

func lex(s string) ([]ltok, error) {
	var toks []ltok
	i := 0
	for i < len(s) {
		c := s[i]
		switch {
		case c == ' ' || c == '\t':
			i++
		case unicode.IsDigit(rune(c)):
			j := i
			for j < len(s) && (unicode.IsDigit(rune(s[j])) || s[j] == 'x' || (s[j] >= 'a' && s[j] <= 'f') || (s[j] >= 'A' && s[j] <= 'F')) {
				j++
			}
			v, err := strconv.ParseInt(s[i:j], 0, 64)
			if err != nil {
				return nil, fmt.Errorf("bad int %q", s[i:j])
			}
			toks = append(toks, ltok{"int", strconv.FormatInt(v, 10)})
			i = j
		case c == '"' || c == '`':
			j := i + 1
			for j < len(s) && s[j] != c {
				if s[j] == '\\' && c == '"' {
					j++
				}
				j++
			}
			if j >= len(s) {
				return nil, fmt.Errorf("unterminated string")
			}
			v, err := strconv.Unquote(s[i : j+1])
			if err != nil {
				return nil, fmt.Errorf("bad string %s: %v", s[i:j+1], err)
			}
			toks = append(toks, ltok{"str", v})
			i = j + 1
		case c == '\'':
			j := i + 1
			for j < len(s) && s[j] != '\'' {
				if s[j] == '\\' {
					j++
				}
				j++
			}
			if j >= len(s) {
				return nil, fmt.Errorf("unterminated char")
			}
			v, _, _, err := strconv.UnquoteChar(s[i+1:j], '\'')
			if err != nil {
				return nil, fmt.Errorf("bad char %s", s[i:j+1])
			}
			toks = append(toks, ltok{"int", strconv.Itoa(int(v))})
			i = j + 1
		case unicode.IsLetter(rune(c)) || c == '_':
			j := i
			for j < len(s) && (unicode.IsLetter(rune(s[j])) || unicode.IsDigit(rune(s[j])) || s[j] == '_' || s[j] == '$') {
				j++
			}
			// allow name#2 (k-th variable of that name)
			if j < len(s) && s[j] == '#' && j+1 < len(s) && unicode.IsDigit(rune(s[j+1])) {
				j++
				for j < len(s) && unicode.IsDigit(rune(s[j])) {
					j++
				}
			}
			toks = append(toks, ltok{"ident", s[i:j]})
			i = j
		default:
			ops := []string{"<==>", "==>", "===", "::", "==", "!=", "<=", ">=", "&&", "||", "++", "<", ">", "+", "-", "*", "/", "%", "!", "(", ")", "[", "]", "{", "}", ",", ".", ":", "?"}
			found := false
			for _, op := range ops {
				if strings.HasPrefix(s[i:], op) {
					toks = append(toks, ltok{"op", op})
					i += len(op)
					found = true
					break
				}
			}
			if !found {
				return nil, fmt.Errorf("unexpected character %q in %q", c, s)
			}
		}
	}
	toks = append(toks, ltok{"eof", ""})
	return toks, nil
}

// ---------- parser ----------

type parser struct {
	toks []ltok
	pos  int
}

func (p *parser) peek() ltok { return p.toks[p.pos] }
func (p *parser) next() ltok { t := p.toks[p.pos]; p.pos++; return t }
func (p *parser) isOp(s string) bool {
	t := p.peek()
	return t.kind == "op" && t.text == s
}
func (p *parser) accept(s string) bool {
	if p.isOp(s) {
		p.pos++
		return true
	}
	return false
}
func (p *parser) expect(s string) {
	if !p.accept(s) {
		panic(fmt.Errorf("expected %q, got %q", s, p.peek().text))
	}
}

func ParseExpr(s string) (e Expr, err error) {
	toks, err := lex(s)
	if err != nil {
		return nil, err
	}
	p := &parser{toks: toks}
	defer func() {
		if r := recover(); r != nil {
			if re, ok := r.(error); ok {
				err = fmt.Errorf("%v in %q", re, s)
				return
			}
			panic(r)
		}
	}()
	e = p.expr()
	if p.peek().kind != "eof" {
		return nil, fmt.Errorf("trailing tokens at %q in %q", p.peek().text, s)
	}
	return e, nil
}

func (p *parser) expr() Expr {
	c := p.iff()
	if p.accept("?") {
		a := p.expr()
		p.expect(":")
		b := p.expr()
		return ECond{c, a, b}
	}
	return c
}

func (p *parser) iff() Expr {
	l := p.imp()
	for p.accept("<==>") {
		r := p.imp()
		l = EBinary{"<==>", l, r}
	}
	return l
}

func (p *parser) imp() Expr {
	l := p.or()
	if p.accept("==>") {
		r := p.imp()
		return EBinary{"==>", l, r}
	}
	return l
}

func (p *parser) or() Expr {
	l := p.and()
	for p.accept("||") {
		l = EBinary{"||", l, p.and()}
	}
	return l
}

func (p *parser) and() Expr {
	l := p.cmp()
	for p.accept("&&") {
		l = EBinary{"&&", l, p.cmp()}
	}
	return l
}

func (p *parser) cmp() Expr {
	l := p.add()
	for _, op := range []string{"===", "==", "!=", "<=", ">=", "<", ">"} {
		if p.accept(op) {
			return EBinary{op, l, p.add()}
		}
	}
	return l
}

func (p *parser) add() Expr {
	l := p.mul()
	for {
		switch {
		case p.accept("++"):
			l = EBinary{"++", l, p.mul()}
		case p.accept("+"):
			l = EBinary{"+", l, p.mul()}
		case p.accept("-"):
			l = EBinary{"-", l, p.mul()}
		default:
			return l
		}
	}
}

func (p *parser) mul() Expr {
	l := p.unary()
	for {
		switch {
		case p.accept("*"):
			l = EBinary{"*", l, p.unary()}
		case p.accept("/"):
			l = EBinary{"/", l, p.unary()}
		case p.accept("%"):
			l = EBinary{"%", l, p.unary()}
		default:
			return l
		}
	}
}

func (p *parser) unary() Expr {
	if p.accept("!") {
		return EUnary{"!", p.unary()}
	}
	if p.accept("-") {
		return EUnary{"-", p.unary()}
	}
	return p.postfix()
}

func (p *parser) postfix() Expr {
	x := p.primary()
	for {
		switch {
		case p.accept("."):
			t := p.next()
			if t.kind == "int" { // result.0
				x = EField{x, t.text}
			} else if t.kind == "ident" {
				x = EField{x, t.text}
			} else {
				panic(fmt.Errorf("bad selector %q", t.text))
			}
		case p.accept("["):
			var lo, hi Expr
			if p.accept(":") {
				if !p.isOp("]") {
					hi = p.expr()
				}
				p.expect("]")
				x = ESlice{x, nil, hi}
				continue
			}
			lo = p.expr()
			if p.accept(":") {
				if !p.isOp("]") {
					hi = p.expr()
				}
				p.expect("]")
				x = ESlice{x, lo, hi}
				continue
			}
			p.expect("]")
			x = EIndex{x, lo}
		default:
			return x
		}
	}
}

func (p *parser) primary() Expr {
	t := p.next()
	switch t.kind {
	case "int":
		return EInt{t.text}
	case "str":
		return EStr{t.text}
	case "ident":
		switch t.text {
		case "true":
			return EBool{true}
		case "false":
			return EBool{false}
		case "nil":
			return ENil{}
		case "old":
			p.expect("(")
			x := p.expr()
			p.expect(")")
			return EOld{x}
		case "forall", "exists":
			q := EQuant{Forall: t.text == "forall"}
			for {
				n := p.next()
				if n.kind != "ident" {
					panic(fmt.Errorf("binder name expected, got %q", n.text))
				}
				ty := p.typeName()
				q.Vars = append(q.Vars, Binder{n.text, ty})
				if !p.accept(",") {
					break
				}
			}
			p.expect("::")
			for p.isOp("{") {
				p.next()
				var tr []Expr
				for {
					tr = append(tr, p.expr())
					if !p.accept(",") {
						break
					}
				}
				p.expect("}")
				q.Triggers = append(q.Triggers, tr)
			}
			q.Body = p.expr()
			return q
		}
		// qualified names and calls: pkg.Name handled by EField on EIdent
		if p.isOp("(") {
			p.next()
			var args []Expr
			if !p.isOp(")") {
				for {
					args = append(args, p.expr())
					if !p.accept(",") {
						break
					}
				}
			}
			p.expect(")")
			return ECall{t.text, args}
		}
		return EIdent{t.text}
	case "op":
		if t.text == "(" {
			x := p.expr()
			p.expect(")")
			return x
		}
	}
	panic(fmt.Errorf("unexpected token %q", t.text))
}

// typeName parses: int | bool | byte | string | []byte | []string | [][]byte | []int | ref | *T | T
func (p *parser) typeName() string {
	s := ""
	for p.accept("[") {
		p.expect("]")
		s += "[]"
	}
	if p.accept("*") {
		s += "*"
	}
	t := p.next()
	if t.kind != "ident" {
		panic(fmt.Errorf("type name expected, got %q", t.text))
	}
	s += t.text
	if p.accept(".") {
		s += "." + p.next().text
	}
	return s
}

// ---------- contract files ----------

type Clause struct {
	Kind     string // requires ensures invariant decreases atreturn atcall assume
	Label    string
	Props    []string
	Loop     int    // loop ordinal (1-based) for invariant/decreases
	Site     string // callee key + #k for atcall
	Assumed  bool   // ensures: assumed at call sites, not proved against the body
	Required bool   // atcall: the call must exist (its disappearance fails the clause instead of making it vacuous)
	Src      string
	E        Expr
	File     string
	Line     int
}

type ModLoc struct {
	Src string
	E   Expr // EField(x, f) | EIdent(ghost) | ECall("elems", x) | ECall("all", T.f)
}

type FuncContract struct {
	Key      string
	Props    []string
	Clauses  []*Clause
	Modifies []ModLoc
	HasMod   bool
	MayPanic bool
	NoSafety bool // run-time safety obligations (index, slice, nil map, type assertion, division) are not generated
	Inline   bool
	Trusted  bool // contract assumed, body not verified (dependencies, interfaces)
	Pure     bool // modifies nothing
	NilCheck bool
	Overflow bool
	Lets     []LetDef
	File     string
	Line     int
	Thorough bool     // only in thorough tier
	Ghosts   []Binder // ghost parameters
	Used     bool
	ChanInvs []chanInvDef
	Defines  *ECall // `defines result == F(params)`: definitional name of the closure a constructor returns
	NoVerify bool
	Abstract bool // postconditions and frame are an abstraction callers use (assumed, listed); the body is still executed and checked against its call-site / return clauses and for run-time safety
	Flows    []*FlowClause
	Asset    *AssetSpec // data obligations over embedded files (asset.go)
}

type LetDef struct {
	Name string
	E    Expr
}

type SpecFunc struct {
	Name   string
	Params []Binder
	Ret    string
	Body   Expr // nil => uninterpreted
	File   string
}

type Axiom struct {
	Name string
	E    Expr
	Src  string
	File string
}

type GhostVar struct {
	Name, Type string
	Local      bool // bookkeeping inside one function body: exempt from frames, never mentioned in modifies
}

type ChanMode struct {
	Field string // pkg.Type.field
	Mode  string // mailbox
}

type SpecSet struct {
	Funcs          map[string]*FuncContract // key -> contract (quick)
	Thor           map[string]*FuncContract // thorough-only extra contracts
	Specs          map[string]*SpecFunc
	Axioms         []*Axiom
	Ghosts         map[string]*GhostVar
	Chans          map[string]string
	Secrets        map[string]*SecretField // pkg.Type.field -> functions allowed to read it
	Guards         []*GuardSpec
	GlobalChanInvs []chanInvDef // invariants of channels held in struct fields: Name is pkg.Type.field
	Errors         []string
}

func NewSpecSet() *SpecSet {
	return &SpecSet{Funcs: map[string]*FuncContract{}, Thor: map[string]*FuncContract{}, Specs: map[string]*SpecFunc{}, Ghosts: map[string]*GhostVar{}, Chans: map[string]string{}, Secrets: map[string]*SecretField{}}
}

var clauseKeywords = map[string]bool{"spec": true, "axiom": true, "ghost": true, "func": true, "requires": true, "ensures": true,
	"modifies": true, "loop": true, "at": true, "maypanic": true, "inline": true, "trusted": true, "pure": true, "check": true,
	"let": true, "chanmode": true, "chaninv": true, "defines": true, "maintains": true, "thorough": true, "secret": true, "flows": true, "asset": true, "nosafety": true, "guarded": true, "released": true, "unlocked": true, "after": true, "assumed": true, "noverify": true, "ghostparam": true, "abstract": true}

// ReadSpecFile reads //@ lines. pkgPrefix is prepended to `func` keys that are
// not already qualified (contract files inside a package use short keys).
func (ss *SpecSet) ReadSpecFile(path, pkgPrefix string) error {
	data, err := os.ReadFile(path)
	if err != nil {
		return err
	}
	type rawClause struct {
		text string
		line int
	}
	var raws []rawClause
	for i, ln := range strings.Split(string(data), "\n") {
		t := strings.TrimSpace(ln)
		if !strings.HasPrefix(t, "//@") {
			continue
		}
		t = strings.TrimSpace(t[3:])
		if t == "" {
			continue
		}
		// strip trailing comments introduced by " // "
		if k := strings.Index(t, " // "); k >= 0 && !strings.Contains(t[:k], "\"") {
			t = strings.TrimSpace(t[:k])
		}
		if strings.HasPrefix(t, "//") {
			continue
		}
		first := t
		if k := strings.IndexAny(t, " \t"); k >= 0 {
			first = t[:k]
		}
		if clauseKeywords[first] || len(raws) == 0 {
			raws = append(raws, rawClause{t, i + 1})
		} else {
			raws[len(raws)-1].text += " " + t
		}
	}
	var cur *FuncContract
	fail := func(line int, f string, a ...interface{}) {
		ss.Errors = append(ss.Errors, fmt.Sprintf("%s:%d: %s", path, line, fmt.Sprintf(f, a...)))
	}
	for _, rc := range raws {
		kw, rest := rc.text, ""
		if k := strings.IndexAny(rc.text, " \t"); k >= 0 {
			kw, rest = rc.text[:k], strings.TrimSpace(rc.text[k+1:])
		}
		switch kw {
		case "spec":
			sf, err := parseSpecFunc(rest)
			if err != nil {
				fail(rc.line, "%v", err)
				continue
			}
			sf.File = path
			ss.Specs[sf.Name] = sf
		case "axiom":
			name := ""
			if strings.HasPrefix(rest, "#") {
				k := strings.IndexAny(rest, " \t")
				name, rest = rest[1:k], strings.TrimSpace(rest[k+1:])
			}
			e, err := ParseExpr(rest)
			if err != nil {
				fail(rc.line, "%v", err)
				continue
			}
			ss.Axioms = append(ss.Axioms, &Axiom{Name: name, E: e, Src: rest, File: path})
		case "ghost":
			f := strings.Fields(rest)
			if len(f) != 2 && !(len(f) == 3 && f[2] == "local") {
				fail(rc.line, "ghost NAME TYPE [local]")
				continue
			}
			if _, dup := ss.Ghosts[f[0]]; dup {
				// ghosts are global by name: a second declaration would silently replace the first (type, `local`)
				fail(rc.line, "ghost %s is declared twice", f[0])
				continue
			}
			ss.Ghosts[f[0]] = &GhostVar{Name: f[0], Type: f[1], Local: len(f) == 3}
		case "chanmode":
			f := strings.Fields(rest)
			if len(f) != 2 {
				fail(rc.line, "chanmode FIELD MODE")
				continue
			}
			ss.Chans[qualify(f[0], pkgPrefix)] = f[1]
		case "secret":
			// secret [Cnn] Type.field readers KEY, KEY, ...
			tc := &Clause{}
			body := parseTags(rest, tc)
			parts := strings.SplitN(body, " readers ", 2)
			if len(parts) != 2 {
				fail(rc.line, "secret [Cnn] Type.field readers KEY, ...")
				continue
			}
			sf := &SecretField{Field: qualify(strings.TrimSpace(parts[0]), pkgPrefix), Props: tc.Props}
			for _, r := range strings.Split(parts[1], ",") {
				if r = strings.TrimSpace(r); r != "" {
					sf.Readers = append(sf.Readers, qualify(r, pkgPrefix))
				}
			}
			ss.Secrets[sf.Field] = sf
		case "guarded", "released", "unlocked":
			g, err := parseGuarded(rest, pkgPrefix, kw == "released")
			if err != nil {
				fail(rc.line, "%v", err)
				continue
			}
			ss.Guards = append(ss.Guards, g)
		case "asset":
			as, props, err := parseAssetHead(rest)
			if err != nil {
				fail(rc.line, "%v", err)
				continue
			}
			cur = &FuncContract{Key: "asset:" + as.Glob, Props: props, File: path, Line: rc.line, Asset: as, Pure: true}
			if _, dup := ss.Funcs[cur.Key]; dup {
				fail(rc.line, "duplicate asset block for %s", as.Glob)
			}
			ss.Funcs[cur.Key] = cur
		case "thorough", "func":
			thor := kw == "thorough"
			if thor {
				rest = strings.TrimSpace(strings.TrimPrefix(rest, "func"))
			}
			key, props := rest, []string(nil)
			if k := strings.Index(rest, "["); k >= 0 {
				key = strings.TrimSpace(rest[:k])
				props = strings.Fields(strings.Trim(rest[k:], "[]"))
			}
			key = qualify(key, pkgPrefix)
			cur = &FuncContract{Key: key, Props: props, File: path, Line: rc.line, Thorough: thor}
			if thor {
				ss.Thor[key] = cur
			} else {
				if _, dup := ss.Funcs[key]; dup {
					fail(rc.line, "duplicate contract for %s", key)
				}
				ss.Funcs[key] = cur
			}
		default:
			if kw == "chaninv" {
				// chaninv NAME v => EXPR   (NAME: a local/captured variable of the current function, or Type.field)
				f := strings.Fields(rest)
				k := strings.Index(rest, "=>")
				if len(f) < 4 || k < 0 || f[2] != "=>" {
					fail(rc.line, "chaninv NAME v => EXPR")
					continue
				}
				ctmp := &Clause{}
				body := parseTags(strings.TrimSpace(rest[k+2:]), ctmp)
				e, err := ParseExpr(body)
				if err != nil {
					fail(rc.line, "%v", err)
					continue
				}
				def := chanInvDef{Name: f[0], Var: f[1], Label: ctmp.Label, Src: body, E: e}
				if strings.Contains(f[0], ".") {
					def.Name = qualify(f[0], pkgPrefix)
					ss.GlobalChanInvs = append(ss.GlobalChanInvs, def)
				} else if cur != nil {
					cur.ChanInvs = append(cur.ChanInvs, def)
				} else {
					fail(rc.line, "chaninv for a local outside func")
				}
				continue
			}
			if cur == nil {
				fail(rc.line, "clause %q outside func", kw)
				continue
			}
			switch kw {
			case "maypanic":
				cur.MayPanic = true
			case "nosafety":
				cur.NoSafety = true
			case "inline":
				cur.Inline = true
			case "trusted":
				cur.Trusted = true
			case "noverify":
				cur.NoVerify = true
			case "abstract":
				cur.Abstract = true
			case "pure":
				cur.Pure = true
				cur.HasMod = true
			case "check":
				for _, f := range strings.Fields(rest) {
					switch f {
					case "nilderef":
						cur.NilCheck = true
					case "overflow":
						cur.Overflow = true
					}
				}
			case "ghostparam":
				f := strings.Fields(rest)
				if len(f) != 2 {
					fail(rc.line, "ghostparam NAME TYPE")
					continue
				}
				cur.Ghosts = append(cur.Ghosts, Binder{f[0], f[1]})
			case "chaninv_placeholder":
				f := strings.Fields(rest)
				k := strings.Index(rest, "=>")
				if len(f) < 4 || k < 0 || f[2] != "=>" {
					fail(rc.line, "chaninv NAME v => EXPR")
					continue
				}
				ctmp := &Clause{}
				body := parseTags(strings.TrimSpace(rest[k+2:]), ctmp)
				e, err := ParseExpr(body)
				if err != nil {
					fail(rc.line, "%v", err)
					continue
				}
				cur.ChanInvs = append(cur.ChanInvs, chanInvDef{Name: f[0], Var: f[1], Label: ctmp.Label, Src: body, E: e})
			case "defines":
				// defines result == NAME(p1, p2, ...)
				k := strings.Index(rest, "==")
				if k < 0 {
					fail(rc.line, "defines result == NAME(params)")
					continue
				}
				e, err := ParseExpr(strings.TrimSpace(rest[k+2:]))
				if err != nil {
					fail(rc.line, "%v", err)
					continue
				}
				call, ok := e.(ECall)
				if !ok {
					fail(rc.line, "defines result == NAME(params)")
					continue
				}
				cur.Defines = &call
			case "let":
				k := strings.Index(rest, "=")
				if k < 0 {
					fail(rc.line, "let NAME = EXPR")
					continue
				}
				e, err := ParseExpr(strings.TrimSpace(rest[k+1:]))
				if err != nil {
					fail(rc.line, "%v", err)
					continue
				}
				cur.Lets = append(cur.Lets, LetDef{strings.TrimSpace(rest[:k]), e})
			case "modifies":
				cur.HasMod = true
				for _, part := range splitTop(rest) {
					part = strings.TrimSpace(part)
					if part == "" || part == "nothing" {
						continue
					}
					e, err := ParseExpr(part)
					if err != nil {
						fail(rc.line, "%v", err)
						continue
					}
					cur.Modifies = append(cur.Modifies, ModLoc{part, e})
				}
			case "after":
				// after call CALLEE#k set GHOST = EXPR   (ghost assignment right after the call returned; `result` bound)
				f := strings.Fields(rest)
				if len(f) < 6 || f[0] != "call" || f[2] != "set" || f[4] != "=" {
					fail(rc.line, "after call CALLEE#k set GHOST = EXPR")
					continue
				}
				body := strings.TrimSpace(strings.SplitN(rest, "=", 2)[1])
				e, err := ParseExpr(body)
				if err != nil {
					fail(rc.line, "%v", err)
					continue
				}
				cur.Clauses = append(cur.Clauses, &Clause{Kind: "aftercallset", Site: f[1], Label: f[3], E: e, Src: body, File: path, Line: rc.line})
			case "flows":
				fl, err := parseFlowClause(rest)
				if err != nil {
					fail(rc.line, "%v", err)
					continue
				}
				fl.Line = rc.line
				cur.Flows = append(cur.Flows, fl)
			case "maintains":
				// an object invariant the function needs, keeps, and (as a goroutine) keeps at every point where
				// another goroutine can observe the object: requires + ensures + assumed by the spawner
				for _, kind := range []string{"requires", "ensures", "maintains"} {
					c := &Clause{Kind: kind, File: path, Line: rc.line}
					body := parseTags(rest, c)
					e, err := ParseExpr(body)
					if err != nil {
						fail(rc.line, "%v", err)
						break
					}
					c.E, c.Src = e, body
					if c.Label == "" {
						c.Label = "maintains"
					}
					cur.Clauses = append(cur.Clauses, c)
				}
			case "assumed":
				// assumed ensures E : a postcondition callers may use but that is NOT proved against the body (an explicit,
				// listed assumption - e.g. the completeness half of a search whose soundness half is proved)
				// assumed requires E : an entry condition the body is verified under but that is NOT demanded from callers
				// (an explicit, listed assumption about input the repository does not control, e.g. user-supplied files)
				akind := "ensures"
				if strings.HasPrefix(rest, "requires ") {
					akind = "requires"
				} else if !strings.HasPrefix(rest, "ensures ") {
					fail(rc.line, "assumed ensures|requires EXPR")
					continue
				}
				c := &Clause{Kind: akind, File: path, Line: rc.line, Assumed: true}
				body := parseTags(strings.TrimPrefix(rest, akind+" "), c)
				e, err := ParseExpr(body)
				if err != nil {
					fail(rc.line, "%v", err)
					continue
				}
				c.E, c.Src = e, body
				cur.Clauses = append(cur.Clauses, c)
			case "requires", "ensures":
				c := &Clause{Kind: kw, File: path, Line: rc.line}
				rest = parseTags(rest, c)
				e, err := ParseExpr(rest)
				if err != nil {
					fail(rc.line, "%v", err)
					continue
				}
				c.E, c.Src = e, rest
				cur.Clauses = append(cur.Clauses, c)
			case "loop":
				f := strings.Fields(rest)
				if len(f) < 3 {
					fail(rc.line, "loop N invariant|decreases EXPR")
					continue
				}
				n, err := strconv.Atoi(f[0])
				if err == nil && f[1] == "set" && len(f) >= 5 && f[3] == "=" {
					// loop N set GHOST = EXPR : ghost snapshot taken at the loop head in every iteration
					body := strings.TrimSpace(strings.SplitN(rest, "=", 2)[1])
					e, perr := ParseExpr(body)
					if perr != nil {
						fail(rc.line, "%v", perr)
						continue
					}
					cur.Clauses = append(cur.Clauses, &Clause{Kind: "loopset", Loop: n, Site: f[2], E: e, Src: body, File: path, Line: rc.line})
					continue
				}
				if err != nil || (f[1] != "invariant" && f[1] != "decreases" && f[1] != "continue") {
					fail(rc.line, "loop N invariant|decreases|continue|set EXPR")
					continue
				}
				c := &Clause{Kind: f[1], Loop: n, File: path, Line: rc.line}
				body := strings.TrimSpace(strings.SplitN(rest, f[1], 2)[1])
				body = parseTags(body, c)
				e, err := ParseExpr(body)
				if err != nil {
					fail(rc.line, "%v", err)
					continue
				}
				c.E, c.Src = e, body
				cur.Clauses = append(cur.Clauses, c)
			case "at":
				// at return assert E | at call KEY#k assert E | at call KEY#k assume E
				f := strings.Fields(rest)
				if len(f) >= 3 && f[0] == "return" && f[1] == "assert" {
					c := &Clause{Kind: "atreturn", File: path, Line: rc.line}
					body := strings.TrimSpace(strings.SplitN(rest, "assert", 2)[1])
					body = parseTags(body, c)
					e, err := ParseExpr(body)
					if err != nil {
						fail(rc.line, "%v", err)
						continue
					}
					c.E, c.Src = e, body
					cur.Clauses = append(cur.Clauses, c)
				} else if len(f) >= 5 && f[0] == "return" && f[1] == "set" && f[3] == "=" {
					body := strings.TrimSpace(strings.SplitN(rest, "=", 2)[1])
					e, err := ParseExpr(body)
					if err != nil {
						fail(rc.line, "%v", err)
						continue
					}
					cur.Clauses = append(cur.Clauses, &Clause{Kind: "atreturnset", Site: f[2], E: e, Src: body, File: path, Line: rc.line})
				} else if len(f) >= 4 && (f[0] == "call" || f[0] == "call!") && (f[2] == "assert") {
					// `at call! X assert E`: the call itself is part of the property (it has to exist and be reachable)
					c := &Clause{Kind: "atcall", Site: f[1], File: path, Line: rc.line, Required: f[0] == "call!"}
					body := strings.TrimSpace(strings.SplitN(rest, " assert ", 2)[1])
					body = parseTags(body, c)
					e, err := ParseExpr(body)
					if err != nil {
						fail(rc.line, "%v", err)
						continue
					}
					c.E, c.Src = e, body
					cur.Clauses = append(cur.Clauses, c)
				} else {
					fail(rc.line, "bad at-clause %q", rest)
				}
			default:
				fail(rc.line, "unknown clause %q", kw)
			}
		}
	}
	return nil
}

func parseTags(rest string, c *Clause) string {
	for {
		rest = strings.TrimSpace(rest)
		if strings.HasPrefix(rest, "[") {
			k := strings.Index(rest, "]")
			inner := rest[1:k]
			// property tags look like C01 C02; a seq literal would not start a clause
			ok := true
			for _, f := range strings.Fields(inner) {
				if len(f) < 3 || f[0] != 'C' {
					ok = false
				}
			}
			if !ok {
				return rest
			}
			c.Props = append(c.Props, strings.Fields(inner)...)
			rest = rest[k+1:]
			continue
		}
		if strings.HasPrefix(rest, "#") {
			k := strings.IndexAny(rest, " \t")
			if k < 0 {
				return rest
			}
			c.Label = rest[1:k]
			rest = rest[k+1:]
			continue
		}
		return rest
	}
}

func qualify(key, pkg string) string {
	if pkg == "" {
		return key
	}
	// already qualified if it contains a '.' before any '(' method receiver part is handled:
	// forms: Name | (*T).m | (T).m | Name$1 | pkg.Name | pkg.(*T).m | T.field
	if strings.HasPrefix(key, "(") {
		return pkg + "." + key
	}
	if k := strings.Index(key, "."); k >= 0 {
		head := key[:k]
		if head != "" && unicode.IsLower(rune(head[0])) {
			return key // looks like pkg.X
		}
	}
	return pkg + "." + key
}

func splitTop(s string) []string {
	var out []string
	depth, start := 0, 0
	for i, c := range s {
		switch c {
		case '(', '[':
			depth++
		case ')', ']':
			depth--
		case ',':
			if depth == 0 {
				out = append(out, s[start:i])
				start = i + 1
			}
		}
	}
	return append(out, s[start:])
}

func parseSpecFunc(rest string) (*SpecFunc, error) {
	// NAME(p T, q T) RET [:= BODY]
	body := ""
	if k := strings.Index(rest, ":="); k >= 0 {
		body = strings.TrimSpace(rest[k+2:])
		rest = strings.TrimSpace(rest[:k])
	}
	lp := strings.Index(rest, "(")
	rp := strings.LastIndex(rest, ")")
	if lp < 0 || rp < lp {
		return nil, fmt.Errorf("bad spec header %q", rest)
	}
	sf := &SpecFunc{Name: strings.TrimSpace(rest[:lp]), Ret: strings.TrimSpace(rest[rp+1:])}
	for _, p := range strings.Split(rest[lp+1:rp], ",") {
		f := strings.Fields(p)
		if len(f) == 0 {
			continue
		}
		if len(f) != 2 {
			return nil, fmt.Errorf("bad spec param %q", p)
		}
		sf.Params = append(sf.Params, Binder{f[0], f[1]})
	}
	if body != "" {
		e, err := ParseExpr(body)
		if err != nil {
			return nil, err
		}
		sf.Body = e
	}
	return sf, nil
}
