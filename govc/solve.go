package main

import (
	"bytes"
	"context"
	"fmt"
	"os"
	"os/exec"
	"path/filepath"
	"strings"
	"sync"
	"time"
)

type solverDef struct {
	name string
	argv func(file string, timeoutS int) []string
}

var solvers = []solverDef{
	{"z3-new", func(f string, t int) []string { return []string{"z3-new", fmt.Sprintf("-T:%d", t), f} }},
	{"z3", func(f string, t int) []string { return []string{"z3", fmt.Sprintf("-T:%d", t), f} }},
	{"cvc5", func(f string, t int) []string { return []string{"cvc5", fmt.Sprintf("--tlimit=%d", t*1000), f} }},
}

type solveOut struct {
	solver string
	status string
	out    string
	secs   float64
}

func runSolver(ctx context.Context, sd solverDef, file string, timeoutS int) solveOut {
	t0 := time.Now()
	cctx, cancel := context.WithTimeout(ctx, time.Duration(timeoutS+2)*time.Second)
	defer cancel()
	argv := sd.argv(file, timeoutS)
	cmd := exec.CommandContext(cctx, argv[0], argv[1:]...)
	var ob bytes.Buffer
	cmd.Stdout = &ob
	cmd.Stderr = &ob
	tr := time.Now()
	_ = cmd.Run()
	if os.Getenv("GOVC_DEBUG") != "" {
		fmt.Fprintf(os.Stderr, "solver %s run %v\n", sd.name, time.Since(tr))
	}
	out := ob.String()
	first := strings.TrimSpace(strings.SplitN(out, "\n", 2)[0])
	status := "error"
	switch {
	case first == "unsat":
		status = "unsat"
	case first == "sat":
		status = "sat"
	case first == "unknown" || strings.Contains(first, "timeout") || strings.Contains(out, "interrupted"):
		status = "unknown"
	case cctx.Err() != nil:
		status = "timeout"
	}
	if status == "error" && (strings.Contains(out, "timeout") || out == "") {
		status = "timeout"
	}
	return solveOut{sd.name, status, out, time.Since(t0).Seconds()}
}

// solveQuery: z3-new first (fast path), then all three raced; first unsat wins.
func solveQuery(q *Query, file string, timeoutS int) {
	if q.Status == "trivial" {
		return
	}
	smt := q.SMT("proof")
	if len(smt) > 4<<20 {
		q.Status = "error"
		q.Output = "VC too large"
		return
	}
	if err := os.WriteFile(file, []byte(smt), 0o644); err != nil {
		q.Status = "error"
		q.Output = err.Error()
		return
	}
	quick := 3
	if quick > timeoutS {
		quick = timeoutS
	}
	r := runSolver(context.Background(), solvers[0], file, quick)
	q.TimeS += r.secs
	if r.status == "unsat" {
		q.Status, q.Solver, q.Output = "unsat", r.solver, ""
		return
	}
	firstFail := r
	ctx, cancel := context.WithCancel(context.Background())
	defer cancel()
	ch := make(chan solveOut, len(solvers))
	for _, sd := range solvers {
		sd := sd
		go func() { ch <- runSolver(ctx, sd, file, timeoutS) }()
	}
	var outs []solveOut
	for range solvers {
		o := <-ch
		outs = append(outs, o)
		if o.status == "unsat" {
			q.Status, q.Solver = "unsat", o.solver
			q.TimeS += o.secs
			cancel()
			return
		}
	}
	maxT := 0.0
	status := "unknown"
	var sb strings.Builder
	fmt.Fprintf(&sb, "[%s quick %ds] %s\n", firstFail.solver, quick, firstLine(firstFail.out))
	for _, o := range outs {
		if o.secs > maxT {
			maxT = o.secs
		}
		if o.status == "sat" {
			status = "sat"
		}
		fmt.Fprintf(&sb, "[%s %.1fs] %s\n", o.solver, o.secs, firstLine(o.out))
	}
	q.TimeS += maxT
	q.Status = status
	q.Output = sb.String()
}

func firstLine(s string) string {
	s = strings.TrimSpace(s)
	if i := strings.Index(s, "\n"); i >= 0 {
		s = s[:i]
	}
	if len(s) > 200 {
		s = s[:200]
	}
	return s
}

func solveAll(qs []*Query, dir string, timeoutS int, workers int) {
	os.MkdirAll(dir, 0o755)
	var wg sync.WaitGroup
	ch := make(chan int)
	for w := 0; w < workers; w++ {
		wg.Add(1)
		go func() {
			defer wg.Done()
			for i := range ch {
				q := qs[i]
				file := filepath.Join(dir, fmt.Sprintf("q%05d.smt2", i))
				solveQuery(q, file, timeoutS)
				if (q.Status == "unsat" || q.Status == "trivial") && os.Getenv("GOVC_KEEP") == "" {
					os.Remove(file)
				} else {
					q.File = file
				}
			}
		}()
	}
	for i := range qs {
		ch <- i
	}
	close(ch)
	wg.Wait()
}

// solveCovers: is each return point reachable (pc satisfiable)? unsat => dead / vacuous.
func solveCovers(qs []*Query, dir string, workers int) {
	var wg sync.WaitGroup
	ch := make(chan int)
	for w := 0; w < workers; w++ {
		wg.Add(1)
		go func() {
			defer wg.Done()
			for i := range ch {
				q := qs[i]
				file := filepath.Join(dir, fmt.Sprintf("cover%05d.smt2", i))
				os.WriteFile(file, []byte(q.SMT("proof")), 0o644)
				r := runSolver(context.Background(), solvers[0], file, 1)
				q.Status, q.Solver, q.TimeS = r.status, r.solver, r.secs
				if os.Getenv("GOVC_KEEP") == "" {
					os.Remove(file)
				}
			}
		}()
	}
	for i := range qs {
		ch <- i
	}
	close(ch)
	wg.Wait()
}
