package main

// Counterexample search and replay on the real code.
//
// For a failed obligation of a top-level function whose inputs can be concretised (integers, booleans,
// bytes, strings, byte slices, string slices, and structs of those reachable through pointers), the failed
// query is re-asked in refutation mode (ground.go); a model is turned into Go values, an in-package test is
// generated that builds those values, calls the real function under recover() and evaluates the obligation
// (safety obligation: "it panicked"; postcondition: the contract clause compiled to Go), and the test is run
// through `go test -overlay` so that nothing is written into the repository.

import (
	"bytes"
	"encoding/json"
	"fmt"
	"go/types"
	"os"
	"os/exec"
	"path/filepath"
	"regexp"
	"sort"
	"strconv"
	"strings"
	"time"

	"golang.org/x/tools/go/ssa"
)

type leaf struct {
	goLHS string     // Go lvalue / variable to assign
	term  string     // SMT term denoting the entry value
	t     types.Type // Go type
	sort  Sort
}

type replayPlan struct {
	f        *ssa.Function
	pkg      *types.Package
	setup    []string // statements creating objects
	leaves   []leaf
	args     []string // Go expressions for the call arguments (receiver first)
	imports  map[string]bool
	ok       bool
	why      string
	argNames map[string]string // contract name -> Go variable
}

func (v *Verifier) qualifier(pkg *types.Package, imports map[string]bool) types.Qualifier {
	return func(p *types.Package) string {
		if p == pkg {
			return ""
		}
		imports[p.Path()] = true
		return p.Name()
	}
}

func declared(q *Query, name string) bool {
	pat := "(declare-const " + name + " "
	for _, d := range q.Ctx.decls[:q.NDecl] {
		if strings.HasPrefix(d, pat) {
			return true
		}
	}
	return false
}

func (v *Verifier) buildPlan(q *Query, f *ssa.Function) *replayPlan {
	p := &replayPlan{f: f, imports: map[string]bool{}, argNames: map[string]string{}}
	if f.Parent() != nil || f.Pkg == nil {
		p.why = "closures and synthetic functions are not replayed"
		return p
	}
	p.pkg = f.Pkg.Pkg
	qual := v.qualifier(p.pkg, p.imports)
	// parameter symbols: p_<name>!k declared in the query
	symOf := func(name string) string {
		pat := regexp.MustCompile(`^\(declare-const (p_` + regexp.QuoteMeta(smtIdent(name)) + `!\d+) `)
		for _, d := range q.Ctx.decls[:q.NDecl] {
			if m := pat.FindStringSubmatch(d); m != nil {
				return m[1]
			}
		}
		return ""
	}
	nobj := 0
	var build func(goExpr, term string, t types.Type, depth int) bool
	build = func(goExpr, term string, t types.Type, depth int) bool {
		switch u := t.Underlying().(type) {
		case *types.Basic:
			so, ok := sortOf(t)
			if !ok || isFloat(t) {
				return true // left at zero
			}
			p.leaves = append(p.leaves, leaf{goExpr, term, t, so})
			return true
		case *types.Slice:
			so, ok := sortOf(t)
			if !ok || so == SSeqI {
				return true
			}
			p.leaves = append(p.leaves, leaf{goExpr, term, t, so})
			return true
		case *types.Pointer:
			st, isStruct := u.Elem().Underlying().(*types.Struct)
			if !isStruct || depth > 2 {
				return true
			}
			named, _ := u.Elem().(*types.Named)
			tn := types.TypeString(u.Elem(), qual)
			if named != nil && named.Obj().Pkg() != nil && !v.isRepoPkg(named.Obj().Pkg().Path()) {
				switch tn {
				case "regexp.Regexp":
					p.imports["regexp"] = true
					p.setup = append(p.setup, fmt.Sprintf("%s = regexp.MustCompile(`a^`)", goExpr))
				default:
					if named.Obj().Exported() {
						p.setup = append(p.setup, fmt.Sprintf("%s = new(%s)", goExpr, tn))
					}
				}
				return true
			}
			if named != nil && !named.Obj().Exported() && named.Obj().Pkg() != p.pkg {
				return true
			}
			if tn == "util.Queue" || (tn == "Queue" && p.pkg.Name() == "util") {
				ctor := "util.NewQueue()"
				if p.pkg.Name() == "util" {
					ctor = "NewQueue()"
				} else {
					p.imports[repoModule+"/util"] = true
				}
				p.setup = append(p.setup, fmt.Sprintf("%s = %s", goExpr, ctor))
				// the queue is filled through its own API from the model of its contents
				if declared(q, "H_util_Queue_queue_0") {
					p.leaves = append(p.leaves, leaf{"queue:" + goExpr, fmt.Sprintf("(select H_util_Queue_queue_0 %s)", term), types.NewSlice(types.NewSlice(types.Typ[types.Uint8])), SSeqB})
				}
				return true
			}
			p.setup = append(p.setup, fmt.Sprintf("%s = &%s{}", goExpr, tn))
			nobj++
			for i := 0; i < st.NumFields(); i++ {
				fld := st.Field(i)
				if !fld.Exported() && named != nil && named.Obj().Pkg() != p.pkg {
					continue
				}
				key := "H_" + shortTypeName(u.Elem()) + "_" + fld.Name()
				ft := fld.Type()
				fterm := fmt.Sprintf("(select %s_0 %s)", key, term)
				has := declared(q, key+"_0")
				switch fu := ft.Underlying().(type) {
				case *types.Pointer:
					build(goExpr+"."+fld.Name(), fterm, ft, depth+1)
				case *types.Interface:
					fn := types.TypeString(ft, qual)
					if fn == "net.Conn" {
						p.setup = append(p.setup, fmt.Sprintf("%s.%s = &replayConn{}", goExpr, fld.Name()))
					}
					_ = fu
				case *types.Chan:
					p.setup = append(p.setup, fmt.Sprintf("%s.%s = make(%s)", goExpr, fld.Name(), types.TypeString(ft, qual)))
				case *types.Map:
					p.setup = append(p.setup, fmt.Sprintf("%s.%s = %s{}", goExpr, fld.Name(), types.TypeString(ft, qual)))
				default:
					if has {
						build(goExpr+"."+fld.Name(), fterm, ft, depth+1)
					}
				}
			}
			return true
		}
		return true
	}
	for i, prm := range f.Params {
		name := prm.Name()
		gv := fmt.Sprintf("a%d", i)
		sym := symOf(name)
		tn := types.TypeString(prm.Type(), qual)
		p.setup = append(p.setup, fmt.Sprintf("var %s %s", gv, tn))
		p.args = append(p.args, gv)
		p.argNames[name] = gv
		if sym == "" {
			continue
		}
		build(gv, sym, prm.Type(), 0)
	}
	p.ok = true
	return p
}

// ---- model ----------------------------------------------------------------------------------------------

func parseValues(out string) map[string]string {
	vals := map[string]string{}
	i := strings.Index(out, "((")
	if i < 0 {
		return vals
	}
	items := parseSexprs(out[i:])
	if len(items) == 0 {
		return vals
	}
	for _, pair := range items[0].list {
		if len(pair.list) == 2 {
			vals[pair.list[0].String()] = pair.list[1].String()
		}
	}
	return vals
}

func intOf(s string) (int64, bool) {
	s = strings.TrimSpace(s)
	if strings.HasPrefix(s, "(- ") {
		n, err := strconv.ParseInt(strings.TrimSuffix(strings.TrimPrefix(s, "(- "), ")"), 10, 64)
		return -n, err == nil
	}
	n, err := strconv.ParseInt(s, 10, 64)
	return n, err == nil
}

func solveGround(smt string, dir string, tag string) (string, string) {
	file := filepath.Join(dir, "refute_"+tag+".smt2")
	os.MkdirAll(dir, 0o755)
	os.WriteFile(file, []byte(smt), 0o644)
	cmd := exec.Command("z3-new", "-T:10", file)
	var ob bytes.Buffer
	cmd.Stdout = &ob
	cmd.Stderr = &ob
	cmd.Run()
	out := ob.String()
	return firstLine(out), out
}

func goBytesLit(bs []byte) string {
	printable := true
	for _, b := range bs {
		if b < 32 || b > 126 {
			printable = false
		}
	}
	if printable {
		return "[]byte(" + strconv.Quote(string(bs)) + ")"
	}
	var parts []string
	for _, b := range bs {
		parts = append(parts, fmt.Sprint(b))
	}
	return "[]byte{" + strings.Join(parts, ", ") + "}"
}

func tryReplay(v *Verifier, o *Obl, q *Query, rp map[string]interface{}) bool {
	if q == nil || q.Ctx == nil || o.FnSSA == nil || o.InlineOf != "" {
		return false
	}
	safety := map[string]bool{"index": true, "slice": true, "nilmap": true, "typeassert": true, "div": true, "panic": true, "makeslice": true, "nilderef": true}
	if !safety[o.Kind] && !(o.Kind == "post" && o.Clause != nil) {
		rp["replay_note"] = "obligation kind " + o.Kind + " has no generic executable oracle"
		return false
	}
	plan := v.buildPlan(q, o.FnSSA)
	if !plan.ok {
		rp["replay_note"] = plan.why
		return false
	}
	dir := filepath.Dir(filepath.Dir(q.File))
	if q.File == "" {
		dir = filepath.Join(v.verifDir, "work")
	}
	smt := q.SMT("proof")
	safetyOracle := "panicked"
	oracle := safetyOracle
	var pre []string
	if o.Kind == "post" {
		oc := &oracleCompiler{v: v, plan: plan, fc: q.Ctx.FC, f: o.FnSSA}
		ex, ok := oc.boolExpr(o.Clause.E)
		if !ok {
			rp["replay_note"] = "postcondition uses a construct without an executable counterpart: " + oc.why
			return false
		}
		pre = oc.pre
		oracle = "!panicked && !func() (ok bool) { defer func() { if recover() != nil { ok = true } }(); return " + ex + " }()"
	}
	rp["replay_pkg_dir"] = strings.TrimPrefix(plan.pkg.Path(), repoModule+"/")
	rp["replay_repo"] = v.repo
	for _, bound := range []int{8, 40} {
		if tryReplayBound(v, o, q, rp, plan, smt, dir, pre, oracle, bound) {
			return true
		}
		if st, _ := rp["refutation_status"].(string); st == "sat" {
			return false
		}
	}
	return false
}

func tryReplayBound(v *Verifier, o *Obl, q *Query, rp map[string]interface{}, plan *replayPlan, smt, dir string, pre []string, oracle string, bound int) bool {
	var want, bt []string
	seqWant := func(term string) {
		want = append(want, fmt.Sprintf("(len_Y %s)", term))
		bt = append(bt, fmt.Sprintf("(len_Y %s)", term))
		for i := 0; i < bound; i++ {
			want = append(want, fmt.Sprintf("(at_Y %s %d)", term, i))
		}
	}
	for _, lf := range plan.leaves {
		switch lf.sort {
		case SInt, SBool:
			want = append(want, lf.term)
		case SBytes:
			seqWant(lf.term)
		case SSeqB:
			want = append(want, fmt.Sprintf("(len_B %s)", lf.term))
			bt = append(bt, fmt.Sprintf("3:(len_B %s)", lf.term))
			for i := 0; i < 3; i++ {
				seqWant(fmt.Sprintf("(at_B %s %d)", lf.term, i))
			}
		}
	}
	base := Ground(smt, nil, bound, bt)
	// applications of library functions that are uninterpreted for the solver but executable in Go: their
	// values are tightened from the real functions after every failed replay
	apps := libraryApps(base)
	for _, a := range apps {
		for _, arg := range a.seqArgs {
			seqWant(arg)
		}
		want = append(want, a.term)
		if a.resultSeq {
			seqWant(a.term)
		}
	}
	learned := boundedDefinitions(apps, bound)
	for round := 0; round < 6; round++ {
		text := base + strings.Join(learned, "\n") + "\n(check-sat)\n(get-value (" + strings.Join(want, " ") + "))\n"
		status, out := solveGround(text, dir, sanitize(o.Name))
		rp["refutation_status"] = status
		rp["refutation_rounds"] = round + 1
		if status != "sat" {
			rp["replay_note"] = "refutation mode gave no (further) model: " + status
			return false
		}
		vals := parseValues(out)
		assigns, modelDesc := concretise(v, plan, vals)
		rp["model"] = modelDesc
		variants := []string{"a^"}
		for _, s := range plan.setup {
			if strings.Contains(s, "regexp.MustCompile(`a^`)") {
				variants = []string{"a^", "(?s).*"}
			}
		}
		for _, pat := range variants {
			setup := make([]string, len(plan.setup))
			for i, s := range plan.setup {
				setup[i] = strings.Replace(s, "regexp.MustCompile(`a^`)", "regexp.MustCompile(`"+pat+"`)", 1)
			}
			p2 := *plan
			p2.setup = setup
			src := genReplayTest(&p2, assigns, pre, oracle, o)
			outcome, output := runReplaySource(v.repo, rp["replay_pkg_dir"].(string), src)
			rp["replay_test"] = src
			rp["replay_outcome"] = outcome
			rp["replay_output"] = output
			if outcome == "violated" {
				return true
			}
			if outcome == "error" {
				return false
			}
		}
		// tighten: the real values of the library functions on this model's arguments
		nl := learnFromModel(apps, vals, bound)
		if len(nl) == 0 {
			rp["replay_note"] = "model does not reproduce on the real code and nothing more can be learned from it"
			return false
		}
		learned = append(learned, nl...)
	}
	rp["replay_note"] = "no reproducing input within 6 refinement rounds"
	return false
}

type libApp struct {
	fn        string
	term      string
	args      []string
	seqArgs   []string
	resultSeq bool
}

// libraryApps finds applications of spec functions that have a Go counterpart
func libraryApps(text string) []libApp {
	known := map[string]struct {
		n      int
		resSeq bool
	}{"sp_contains": {2, false}, "sp_hasPrefix": {2, false}, "sp_hasSuffix": {2, false}, "sp_lower": {1, true}, "sp_tsLo": {1, false}, "sp_tsHi": {1, false}, "sp_indexOf": {2, false}, "sp_atoiOK": {1, false}, "sp_atoiVal": {1, false}}
	seen := map[string]bool{}
	var out []libApp
	for _, it := range parseSexprs(text) {
		if it.head() != "assert" {
			continue
		}
		collectTerms(it, func(t *sx) {
			k, ok := known[t.head()]
			if !ok || len(t.list) != k.n+1 {
				return
			}
			s := t.String()
			if seen[s] || strings.Contains(s, "?") || len(out) >= 24 {
				return
			}
			seen[s] = true
			a := libApp{fn: t.head(), term: s, resultSeq: k.resSeq}
			for _, x := range t.list[1:] {
				a.args = append(a.args, x.String())
				a.seqArgs = append(a.seqArgs, x.String())
			}
			out = append(out, a)
		})
	}
	// inner applications first so that their values are known when outer ones are evaluated
	sort.SliceStable(out, func(i, j int) bool { return len(out[i].term) < len(out[j].term) })
	return out
}

// boundedDefinitions: exact definitions of the library functions for sequences of at most `bound` elements
// (refutation mode only; candidates are still validated by replay)
func boundedDefinitions(apps []libApp, bound int) []string {
	var out []string
	for _, a := range apps {
		switch a.fn {
		case "sp_contains", "sp_hasPrefix", "sp_hasSuffix":
			A, B := a.args[0], a.args[1]
			var alts []string
			for o := 0; o <= bound; o++ {
				var conj []string
				conj = append(conj, fmt.Sprintf("(<= (+ %d (len_Y %s)) (len_Y %s))", o, B, A))
				for t := 0; t < bound; t++ {
					conj = append(conj, fmt.Sprintf("(=> (< %d (len_Y %s)) (= (at_Y %s %d) (at_Y %s %d)))", t, B, A, o+t, B, t))
				}
				c := "(and " + strings.Join(conj, " ") + ")"
				switch a.fn {
				case "sp_hasPrefix":
					if o == 0 {
						alts = append(alts, c)
					}
				case "sp_hasSuffix":
					alts = append(alts, fmt.Sprintf("(and (= (+ %d (len_Y %s)) (len_Y %s)) %s)", o, B, A, c))
				default:
					alts = append(alts, c)
				}
			}
			out = append(out, fmt.Sprintf("(assert (=> (and (<= (len_Y %s) %d) (<= (len_Y %s) %d)) (= %s (or %s))))", A, bound, B, bound, a.term, strings.Join(alts, " ")))
		case "sp_lower":
			A := a.args[0]
			var conj []string
			conj = append(conj, fmt.Sprintf("(= (len_Y %s) (len_Y %s))", a.term, A))
			for t := 0; t < bound; t++ {
				x := fmt.Sprintf("(at_Y %s %d)", A, t)
				conj = append(conj, fmt.Sprintf("(=> (< %d (len_Y %s)) (= (at_Y %s %d) (ite (and (<= 65 %s) (<= %s 90)) (+ %s 32) %s)))", t, A, a.term, t, x, x, x, x))
			}
			out = append(out, fmt.Sprintf("(assert (=> (<= (len_Y %s) %d) (and %s)))", A, bound, strings.Join(conj, " ")))
		}
	}
	return out
}

func modelBytes(vals map[string]string, term string, bound int) ([]byte, bool) {
	n, ok := intOf(vals[fmt.Sprintf("(len_Y %s)", term)])
	if !ok || n < 0 || n > int64(bound) {
		return nil, false
	}
	bs := make([]byte, n)
	for i := int64(0); i < n; i++ {
		x, ok := intOf(vals[fmt.Sprintf("(at_Y %s %d)", term, i)])
		if !ok || x < 0 || x > 255 {
			return nil, false
		}
		bs[i] = byte(x)
	}
	return bs, true
}

func seqEqConstraint(term string, val []byte) string {
	parts := []string{fmt.Sprintf("(= (len_Y %s) %d)", term, len(val))}
	for i, b := range val {
		parts = append(parts, fmt.Sprintf("(= (at_Y %s %d) %d)", term, i, b))
	}
	return "(and " + strings.Join(parts, " ") + ")"
}

// learnFromModel: for every library application whose arguments are concrete in the model, assert the value the
// real Go function gives on them (guarded by "the arguments have these values").
func learnFromModel(apps []libApp, vals map[string]string, bound int) []string {
	var out []string
	for _, a := range apps {
		var argv [][]byte
		ok := true
		var guards []string
		for _, t := range a.seqArgs {
			b, k := modelBytes(vals, t, bound)
			if !k {
				ok = false
				break
			}
			argv = append(argv, b)
			guards = append(guards, seqEqConstraint(t, b))
		}
		if !ok {
			continue
		}
		guard := "(and " + strings.Join(guards, " ") + ")"
		boolRes := func(b bool) string { return fmt.Sprintf("(assert (=> %s (= %s %v)))", guard, a.term, b) }
		intRes := func(n int) string {
			if n < 0 {
				return fmt.Sprintf("(assert (=> %s (= %s (- %d))))", guard, a.term, -n)
			}
			return fmt.Sprintf("(assert (=> %s (= %s %d)))", guard, a.term, n)
		}
		switch a.fn {
		case "sp_contains":
			out = append(out, boolRes(bytes.Contains(argv[0], argv[1])))
		case "sp_hasPrefix":
			out = append(out, boolRes(bytes.HasPrefix(argv[0], argv[1])))
		case "sp_hasSuffix":
			out = append(out, boolRes(bytes.HasSuffix(argv[0], argv[1])))
		case "sp_lower":
			out = append(out, fmt.Sprintf("(assert (=> %s %s))", guard, seqEqConstraint(a.term, bytes.ToLower(argv[0]))))
		case "sp_tsLo":
			t := bytes.TrimLeft(argv[0], " \t\n\v\f\r\x85\xa0")
			lo := len(argv[0]) - len(t)
			if len(bytes.TrimSpace(argv[0])) == 0 {
				lo = 0
			}
			out = append(out, intRes(lo))
		case "sp_tsHi":
			ts := bytes.TrimSpace(argv[0])
			t := bytes.TrimLeft(argv[0], " \t\n\v\f\r\x85\xa0")
			lo := len(argv[0]) - len(t)
			if len(ts) == 0 {
				lo = 0
			}
			out = append(out, intRes(lo+len(ts)))
		case "sp_indexOf":
			out = append(out, intRes(bytes.Index(argv[0], argv[1])))
		case "sp_atoiOK":
			_, err := strconv.Atoi(string(argv[0]))
			out = append(out, boolRes(err == nil))
		case "sp_atoiVal":
			n, err := strconv.Atoi(string(argv[0]))
			if err == nil {
				out = append(out, intRes(n))
			}
		}
	}
	// only constraints not already satisfied by the model are new information; keep all (cheap)
	return out
}

func concretise(v *Verifier, plan *replayPlan, vals map[string]string) ([]string, map[string]string) {
	var assigns []string
	modelDesc := map[string]string{}
	bytesOf := func(term string) ([]byte, bool) {
		n, ok := intOf(vals[fmt.Sprintf("(len_Y %s)", term)])
		if !ok || n < 0 || n > 40 {
			return nil, false
		}
		bs := make([]byte, n)
		for i := int64(0); i < n; i++ {
			x, ok := intOf(vals[fmt.Sprintf("(at_Y %s %d)", term, i)])
			if !ok {
				x = 'a'
			}
			bs[i] = byte(x)
		}
		return bs, true
	}
	for _, lf := range plan.leaves {
		switch lf.sort {
		case SInt:
			n, ok := intOf(vals[lf.term])
			if !ok {
				continue
			}
			if isInteger(lf.t) {
				assigns = append(assigns, fmt.Sprintf("%s = %d", lf.goLHS, n))
				modelDesc[lf.goLHS] = fmt.Sprint(n)
			}
		case SBool:
			if vv, ok := vals[lf.term]; ok && (vv == "true" || vv == "false") {
				assigns = append(assigns, fmt.Sprintf("%s = %s", lf.goLHS, vv))
				modelDesc[lf.goLHS] = vv
			}
		case SBytes:
			bs, ok := bytesOf(lf.term)
			if !ok {
				continue
			}
			if isString(lf.t) {
				assigns = append(assigns, fmt.Sprintf("%s = string(%s)", lf.goLHS, goBytesLit(bs)))
			} else {
				assigns = append(assigns, fmt.Sprintf("%s = %s", lf.goLHS, goBytesLit(bs)))
			}
			modelDesc[lf.goLHS] = strconv.Quote(string(bs))
		case SSeqB:
			n, ok := intOf(vals[fmt.Sprintf("(len_B %s)", lf.term)])
			if !ok || n < 0 || n > 3 {
				continue
			}
			et := elemType(lf.t)
			var elems []string
			for i := int64(0); i < n; i++ {
				bs, ok := bytesOf(fmt.Sprintf("(at_B %s %d)", lf.term, i))
				if !ok {
					bs = []byte("a")
				}
				if isString(et) {
					elems = append(elems, "string("+goBytesLit(bs)+")")
				} else {
					elems = append(elems, goBytesLit(bs))
				}
			}
			qual := v.qualifier(plan.pkg, plan.imports)
			if strings.HasPrefix(lf.goLHS, "queue:") {
				for _, e := range elems {
					assigns = append(assigns, fmt.Sprintf("%s.Enqueue(%s)", strings.TrimPrefix(lf.goLHS, "queue:"), e))
				}
				modelDesc[lf.goLHS] = "[" + strings.Join(elems, ", ") + "]"
				continue
			}
			assigns = append(assigns, fmt.Sprintf("%s = %s{%s}", lf.goLHS, types.TypeString(lf.t, qual), strings.Join(elems, ", ")))
			modelDesc[lf.goLHS] = "[" + strings.Join(elems, ", ") + "]"
		}
	}
	return assigns, modelDesc
}

func unusedReplayTail(v *Verifier, plan *replayPlan, o *Obl, rp map[string]interface{}, assigns, pre []string, oracle string) bool {
	rp["replay_pkg_dir"] = strings.TrimPrefix(plan.pkg.Path(), repoModule+"/")
	rp["replay_repo"] = v.repo
	// regular expressions cannot be concretised from an uninterpreted model: try a never-matching and an
	// always-matching pattern for the pattern-typed inputs
	variants := []string{"a^"}
	for _, s := range plan.setup {
		if strings.Contains(s, "regexp.MustCompile(`a^`)") {
			variants = []string{"a^", "(?s).*"}
		}
	}
	for _, pat := range variants {
		setup := make([]string, len(plan.setup))
		for i, s := range plan.setup {
			setup[i] = strings.Replace(s, "regexp.MustCompile(`a^`)", "regexp.MustCompile(`"+pat+"`)", 1)
		}
		p2 := *plan
		p2.setup = setup
		src := genReplayTest(&p2, assigns, pre, oracle, o)
		outcome, output := runReplaySource(v.repo, rp["replay_pkg_dir"].(string), src)
		rp["replay_test"] = src
		rp["replay_outcome"] = outcome
		rp["replay_output"] = output
		if outcome == "violated" {
			return true
		}
	}
	return false
}

func genReplayTest(plan *replayPlan, assigns, pre []string, oracle string, o *Obl) string {
	var b strings.Builder
	f := plan.f
	fmt.Fprintf(&b, "// generated by govc: replay of obligation %s\npackage %s\n\nimport (\n\t\"bytes\"\n\t\"errors\"\n\t\"fmt\"\n\t\"net\"\n\t\"reflect\"\n\t\"testing\"\n\t\"time\"\n", o.Name, plan.pkg.Name())
	b.WriteString("//IMPORTS\n)\n\n")
	b.WriteString(replayRuntime)
	b.WriteString("\nfunc TestGovcReplay(t *testing.T) {\n")
	for _, s := range plan.setup {
		fmt.Fprintf(&b, "\t%s\n", s)
	}
	for _, s := range assigns {
		fmt.Fprintf(&b, "\t%s\n", s)
	}
	for _, a := range plan.args {
		fmt.Fprintf(&b, "\t_ = %s\n", a)
	}
	for _, s := range pre {
		fmt.Fprintf(&b, "\t%s\n", s)
	}
	nres := f.Signature.Results().Len()
	var rs []string
	for i := 0; i < nres; i++ {
		rs = append(rs, fmt.Sprintf("r%d", i))
		fmt.Fprintf(&b, "\tvar r%d %s\n\t_ = r%d\n", i, types.TypeString(f.Signature.Results().At(i).Type(), func(p *types.Package) string {
			if p == plan.pkg {
				return ""
			}
			return p.Name()
		}), i)
	}
	call := ""
	if f.Signature.Recv() != nil {
		call = fmt.Sprintf("%s.%s(%s)", plan.args[0], f.Name(), strings.Join(variadicArgs(f, plan.args[1:]), ", "))
	} else {
		call = fmt.Sprintf("%s(%s)", f.Name(), strings.Join(variadicArgs(f, plan.args), ", "))
	}
	b.WriteString("\tpanicked := false\n\tvar panicVal interface{}\n\tfunc() {\n\t\tdefer func() {\n\t\t\tif r := recover(); r != nil {\n\t\t\t\tpanicked = true\n\t\t\t\tpanicVal = r\n\t\t\t}\n\t\t}()\n")
	if nres > 0 {
		fmt.Fprintf(&b, "\t\t%s = %s\n", strings.Join(rs, ", "), call)
	} else {
		fmt.Fprintf(&b, "\t\t%s\n", call)
	}
	b.WriteString("\t}()\n")
	fmt.Fprintf(&b, "\tviolated := %s\n", oracle)
	b.WriteString("\tif violated {\n\t\tfmt.Printf(\"REPLAY-RESULT: violated (panicked=%v %v)\\n\", panicked, panicVal)\n\t\tt.Fatalf(\"obligation violated on the real code\")\n\t}\n\tfmt.Println(\"REPLAY-RESULT: held\")\n}\n")
	text := b.String()
	body := text[strings.Index(text, "func TestGovcReplay"):]
	var imps []string
	for p := range plan.imports {
		if p == "bytes" || p == "errors" || p == "fmt" || p == "net" || p == "reflect" || p == "testing" || p == "time" {
			continue
		}
		name := p[strings.LastIndex(p, "/")+1:]
		if strings.Contains(body, name+".") {
			imps = append(imps, p)
		}
	}
	sort.Strings(imps)
	var ib strings.Builder
	for _, p := range imps {
		fmt.Fprintf(&ib, "\t%q\n", p)
	}
	return strings.Replace(text, "//IMPORTS\n", ib.String(), 1)
}

func variadicArgs(f *ssa.Function, args []string) []string {
	out := append([]string(nil), args...)
	if f.Signature.Variadic() && len(out) > 0 {
		out[len(out)-1] += "..."
	}
	return out
}

func runReplaySource(repo, pkgDir, src string) (string, string) {
	tmp, err := os.MkdirTemp("/var/tmp", "govc-replay-")
	if err != nil {
		return "error", err.Error()
	}
	defer os.RemoveAll(tmp)
	testFile := filepath.Join(tmp, "zz_govc_replay_test.go")
	os.WriteFile(testFile, []byte(src), 0o644)
	ov := map[string]map[string]string{"Replace": {filepath.Join(repo, pkgDir, "zz_govc_replay_test.go"): testFile}}
	ob, _ := json.Marshal(ov)
	ovFile := filepath.Join(tmp, "ov.json")
	os.WriteFile(ovFile, ob, 0o644)
	cmd := exec.Command("sh", "-c", fmt.Sprintf("ulimit -v 4000000; cd %s && go test -overlay %s -vet=off -count=1 -v -timeout 60s -run '^TestGovcReplay$' ./%s/", repo, ovFile, pkgDir))
	cmd.Env = append(os.Environ(), "GOFLAGS=-mod=mod", "GOPROXY=off", "GOSUMDB=off", "GOTOOLCHAIN=local")
	var out bytes.Buffer
	cmd.Stdout = &out
	cmd.Stderr = &out
	done := make(chan struct{})
	go func() { cmd.Run(); close(done) }()
	select {
	case <-done:
	case <-time.After(120 * time.Second):
		if cmd.Process != nil {
			cmd.Process.Kill()
		}
	}
	o := out.String()
	if len(o) > 4000 {
		o = o[:4000]
	}
	switch {
	case strings.Contains(o, "REPLAY-RESULT: violated"):
		return "violated", o
	case strings.Contains(o, "REPLAY-RESULT: held"):
		return "held", o
	}
	return "error", o
}

func runReplayTest(rp map[string]interface{}) int {
	src, _ := rp["replay_test"].(string)
	dir, _ := rp["replay_pkg_dir"].(string)
	repo, _ := rp["replay_repo"].(string)
	if repo == "" {
		repo = "/repo"
	}
	outcome, out := runReplaySource(repo, dir, src)
	fmt.Printf("replay outcome on %s: %s\n%s\n", repo, outcome, out)
	if outcome == "violated" {
		return 1
	}
	return 0
}

const replayRuntime = `
type replayConn struct{ written []byte }

func (c *replayConn) Read(b []byte) (int, error)         { return 0, errors.New("replay: no data") }
func (c *replayConn) Write(b []byte) (int, error)        { c.written = append(c.written, b...); return len(b), nil }
func (c *replayConn) Close() error                       { return nil }
func (c *replayConn) LocalAddr() net.Addr                { return nil }
func (c *replayConn) RemoteAddr() net.Addr               { return nil }
func (c *replayConn) SetDeadline(t time.Time) error      { return nil }
func (c *replayConn) SetReadDeadline(t time.Time) error  { return nil }
func (c *replayConn) SetWriteDeadline(t time.Time) error { return nil }

func rNorm(x interface{}) interface{} {
	switch v := x.(type) {
	case string:
		return []byte(v)
	case nil:
		return nil
	}
	rv := reflect.ValueOf(x)
	switch rv.Kind() {
	case reflect.Slice:
		if rv.Type().Elem().Kind() == reflect.Uint8 {
			return rv.Bytes()
		}
		out := make([]interface{}, rv.Len())
		for i := range out {
			out[i] = rNorm(rv.Index(i).Interface())
		}
		return out
	case reflect.Int, reflect.Int8, reflect.Int16, reflect.Int32, reflect.Int64:
		return rv.Int()
	case reflect.Uint, reflect.Uint8, reflect.Uint16, reflect.Uint32, reflect.Uint64:
		return int64(rv.Uint())
	case reflect.Ptr, reflect.Interface, reflect.Map, reflect.Chan, reflect.Func:
		if rv.IsNil() {
			return nil
		}
	}
	return x
}

func rEq(a, b interface{}) bool {
	a, b = rNorm(a), rNorm(b)
	if ab, ok := a.([]byte); ok {
		if b == nil {
			return len(ab) == 0
		}
		bb, ok2 := b.([]byte)
		return ok2 && bytes.Equal(ab, bb)
	}
	if bb, ok := b.([]byte); ok && a == nil {
		return len(bb) == 0
	}
	if al, ok := a.([]interface{}); ok {
		if b == nil {
			return len(al) == 0
		}
		bl, ok2 := b.([]interface{})
		if !ok2 || len(al) != len(bl) {
			return false
		}
		for i := range al {
			if !rEq(al[i], bl[i]) {
				return false
			}
		}
		return true
	}
	if bl, ok := b.([]interface{}); ok && a == nil {
		return len(bl) == 0
	}
	return reflect.DeepEqual(a, b)
}

func rInt(x interface{}) int64 {
	switch v := rNorm(x).(type) {
	case int64:
		return v
	case bool:
		if v {
			return 1
		}
	}
	panic("rInt")
}

func rB(x interface{}) []byte {
	if x == nil {
		return nil
	}
	if b, ok := rNorm(x).([]byte); ok {
		return b
	}
	panic("rB")
}

func rLen(x interface{}) int64 {
	switch v := rNorm(x).(type) {
	case nil:
		return 0
	case []byte:
		return int64(len(v))
	case []interface{}:
		return int64(len(v))
	}
	panic("rLen")
}

func rAt(x interface{}, i int64) interface{} {
	switch v := rNorm(x).(type) {
	case []byte:
		return int64(v[i])
	case []interface{}:
		return v[i]
	}
	panic("rAt")
}

func rSlice(x interface{}, lo, hi int64) interface{} {
	switch v := rNorm(x).(type) {
	case nil:
		if lo == 0 && hi == 0 {
			return []byte(nil)
		}
	case []byte:
		return v[lo:hi]
	case []interface{}:
		return v[lo:hi]
	}
	panic("rSlice")
}

func rAdd(a, b interface{}) interface{} {
	a, b = rNorm(a), rNorm(b)
	if x, ok := a.(int64); ok {
		return x + b.(int64)
	}
	switch x := a.(type) {
	case nil:
		return b
	case []byte:
		if b == nil {
			return x
		}
		return append(append([]byte(nil), x...), b.([]byte)...)
	case []interface{}:
		if b == nil {
			return x
		}
		return append(append([]interface{}(nil), x...), b.([]interface{})...)
	}
	panic("rAdd")
}

func rBytes(xs ...interface{}) interface{} {
	out := []byte{}
	for _, x := range xs {
		out = append(out, byte(rInt(x)))
	}
	return out
}

func rList(xs ...interface{}) interface{} {
	out := []interface{}{}
	for _, x := range xs {
		out = append(out, rNorm(x))
	}
	return out
}

func rCopy(x interface{}) interface{} {
	n := rNorm(x)
	if b, ok := n.([]byte); ok {
		return append([]byte(nil), b...)
	}
	return n
}

func rIte(c bool, a, b func() interface{}) interface{} {
	if c {
		return a()
	}
	return b()
}

func rForall(lo, hi int64, f func(i int64) bool) bool {
	for i := lo; i < hi; i++ {
		if !f(i) {
			return false
		}
	}
	return true
}

func rExists(lo, hi int64, f func(i int64) bool) bool {
	for i := lo; i < hi; i++ {
		if f(i) {
			return true
		}
	}
	return false
}

func rErr(x interface{}) error {
	if x == nil {
		return nil
	}
	return x.(error)
}

func rBool(x interface{}) bool { return x.(bool) }

var _ = fmt.Sprint
var _ = errors.Is
`
