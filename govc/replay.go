package main

// counterexample search (refutation mode) and replay on the real code: see replay_impl.go (to come)

func tryReplay(v *Verifier, o *Obl, q *Query, rp map[string]interface{}) bool { return false }

func runReplayTest(rp map[string]interface{}) int { return 1 }
