package main

import (
	"fmt"
	"go/types"
	"strings"

	"golang.org/x/tools/go/ssa"
)

// Val is a symbolic value: Term | *Addr | Tuple | *Closure | *FuncVal | Unit
type Val interface{}

type Tuple []Val
type Unit struct{}

type Closure struct {
	Fn   *ssa.Function
	Bind []Val
	Ref  Term // identity as first-class value
}

type FuncVal struct {
	Fn *ssa.Function
}

const (
	aCell = iota
	aField
	aElem
	aOpaque
)

// Addr is a second-class pointer value (lvalue).
type Addr struct {
	Kind   int
	Key    interface{} // aCell: *ssa.Alloc | *ssa.FreeVar | *ssa.Global | string
	Ref    Term        // aField: object reference
	HKey   string      // aField: heap map name
	Origin *Addr       // aElem: where the sequence lives (may be nil)
	Seq    Term        // aElem: sequence value when the address was taken
	Idx    Term        // aElem
	Elem   types.Type  // pointee type
}

type deferred struct {
	call *ssa.CallCommon
	args []Val // evaluated at defer time
	fn   Val   // evaluated callee value (closure) if dynamic
	pos  ssa.Instruction
}

type State struct {
	regs     map[ssa.Value]Val
	cells    map[interface{}]Val
	heap     map[string]Term // current version of each heap map / ghost variable
	origin   map[ssa.Value]*Addr
	pc       []string
	defers   map[*Frame][]deferred
	inLoop   map[*ssa.BasicBlock]bool
	variant  map[*ssa.BasicBlock][]Term
	trace    []string
	volatile map[interface{}]bool
	fresh    map[string]bool // sequence terms known to be freshly allocated (no alias)
	nDecl    int
	epoch    int
}

func newState() *State {
	return &State{regs: map[ssa.Value]Val{}, cells: map[interface{}]Val{}, heap: map[string]Term{}, origin: map[ssa.Value]*Addr{},
		defers: map[*Frame][]deferred{}, inLoop: map[*ssa.BasicBlock]bool{}, variant: map[*ssa.BasicBlock][]Term{}, volatile: map[interface{}]bool{}, fresh: map[string]bool{}}
}

func (s *State) clone() *State {
	n := &State{regs: make(map[ssa.Value]Val, len(s.regs)), cells: make(map[interface{}]Val, len(s.cells)), heap: make(map[string]Term, len(s.heap)),
		origin: make(map[ssa.Value]*Addr, len(s.origin)), defers: make(map[*Frame][]deferred, len(s.defers)), inLoop: make(map[*ssa.BasicBlock]bool, len(s.inLoop)),
		variant: make(map[*ssa.BasicBlock][]Term, len(s.variant)), volatile: make(map[interface{}]bool, len(s.volatile)), fresh: make(map[string]bool, len(s.fresh))}
	for k, v := range s.regs {
		n.regs[k] = v
	}
	for k, v := range s.cells {
		n.cells[k] = v
	}
	for k, v := range s.heap {
		n.heap[k] = v
	}
	for k, v := range s.origin {
		n.origin[k] = v
	}
	for k, v := range s.defers {
		n.defers[k] = append([]deferred(nil), v...)
	}
	for k, v := range s.inLoop {
		n.inLoop[k] = v
	}
	for k, v := range s.variant {
		n.variant[k] = v
	}
	for k, v := range s.volatile {
		n.volatile[k] = v
	}
	for k, v := range s.fresh {
		n.fresh[k] = v
	}
	n.pc = append([]string(nil), s.pc...)
	n.trace = append([]string(nil), s.trace...)
	n.nDecl = s.nDecl
	n.epoch = s.epoch
	return n
}

func (s *State) assume(t Term) {
	if t.S == "true" {
		return
	}
	s.pc = append(s.pc, t.S)
}

// heapSnapshot returns a state sharing nothing mutable with s but carrying only the heap (for old()).
func (s *State) heapSnapshot() *State {
	n := newState()
	for k, v := range s.heap {
		n.heap[k] = v
	}
	n.cells = s.cells
	n.regs = s.regs
	n.epoch = s.epoch
	return n
}

// ---------- undecided / unsupported ----------

type unsupported struct{ msg string }

func (u unsupported) Error() string { return u.msg }

func unsupp(f string, a ...interface{}) {
	panic(unsupported{fmt.Sprintf(f, a...)})
}

// ---------- type helpers ----------

func typeKey(t types.Type) string {
	s := types.TypeString(t, func(p *types.Package) string { return p.Name() })
	return s
}

func shortTypeName(t types.Type) string {
	return smtIdent(strings.ReplaceAll(typeKey(t), "*", "P"))
}

func deref(t types.Type) types.Type {
	if p, ok := t.Underlying().(*types.Pointer); ok {
		return p.Elem()
	}
	return t
}

func isByte(t types.Type) bool {
	b, ok := t.Underlying().(*types.Basic)
	return ok && (b.Kind() == types.Uint8)
}

func isString(t types.Type) bool {
	b, ok := t.Underlying().(*types.Basic)
	return ok && (b.Info()&types.IsString != 0)
}

func isInteger(t types.Type) bool {
	b, ok := t.Underlying().(*types.Basic)
	return ok && (b.Info()&types.IsInteger != 0)
}

func isFloat(t types.Type) bool {
	b, ok := t.Underlying().(*types.Basic)
	return ok && (b.Info()&(types.IsFloat|types.IsComplex) != 0)
}

func isBoolT(t types.Type) bool {
	b, ok := t.Underlying().(*types.Basic)
	return ok && (b.Info()&types.IsBoolean != 0)
}

func isStructPtr(t types.Type) bool {
	p, ok := t.Underlying().(*types.Pointer)
	if !ok {
		return false
	}
	_, ok = p.Elem().Underlying().(*types.Struct)
	return ok
}

func isInterface(t types.Type) bool {
	_, ok := t.Underlying().(*types.Interface)
	return ok
}

// sortOf maps a Go type to an SMT sort. ok=false when unsupported.
func sortOf(t types.Type) (Sort, bool) {
	switch u := t.Underlying().(type) {
	case *types.Basic:
		switch {
		case u.Info()&types.IsBoolean != 0:
			return SBool, true
		case u.Info()&types.IsString != 0:
			return SBytes, true
		case u.Info()&types.IsInteger != 0:
			return SInt, true
		case u.Info()&(types.IsFloat|types.IsComplex) != 0:
			return SInt, true // opaque
		case u.Kind() == types.UnsafePointer:
			return SInt, true
		case u.Kind() == types.UntypedNil:
			return SInt, true
		}
	case *types.Slice:
		return seqSort(u.Elem())
	case *types.Array:
		return seqSort(u.Elem())
	case *types.Pointer, *types.Interface, *types.Map, *types.Chan, *types.Signature:
		return SInt, true
	case *types.Struct:
		return SInt, true // opaque token / embedded object reference
	case *types.Tuple:
		return SNone, true
	}
	return SNone, false
}

func seqSort(elem types.Type) (Sort, bool) {
	if isByte(elem) {
		return SBytes, true
	}
	es, ok := sortOf(elem)
	if !ok {
		return SNone, false
	}
	switch es {
	case SInt:
		return SSeqI, true
	case SBytes:
		return SSeqB, true
	case SSeqB:
		return SSeqC, true
	}
	return SNone, false
}

func mustSort(t types.Type) Sort {
	s, ok := sortOf(t)
	if !ok {
		unsupp("type %s has no SMT sort", t)
	}
	return s
}

func elemType(t types.Type) types.Type {
	switch u := t.Underlying().(type) {
	case *types.Slice:
		return u.Elem()
	case *types.Array:
		return u.Elem()
	case *types.Pointer:
		return elemType(u.Elem())
	case *types.Basic:
		if u.Info()&types.IsString != 0 {
			return types.Typ[types.Uint8]
		}
	case *types.Map:
		return u.Elem()
	}
	return nil
}

// intRange returns range constraints for an Int-coded Go value
func intRange(t types.Type, x Term) Term {
	b, ok := t.Underlying().(*types.Basic)
	if !ok || x.Sort != SInt {
		return tTrue
	}
	lohi := func(lo, hi string) Term {
		return mk(SBool, "(and (<= %s %s) (<= %s %s))", lo, x.S, x.S, hi)
	}
	switch b.Kind() {
	case types.Uint8:
		return lohi("0", "255")
	case types.Int8:
		return lohi("(- 128)", "127")
	case types.Uint16:
		return lohi("0", "65535")
	case types.Int16:
		return lohi("(- 32768)", "32767")
	case types.Uint32:
		return lohi("0", "4294967295")
	case types.Int32:
		return lohi("(- 2147483648)", "2147483647")
	case types.Uint, types.Uint64, types.Uintptr:
		return lohi("0", "18446744073709551615")
	case types.Int, types.Int64:
		return lohi("(- 9223372036854775808)", "9223372036854775807")
	}
	return tTrue
}

// isOpaqueStruct: a struct type that is not declared in the repository (time.Time, sync.Mutex, xml.Name ...):
// its values are opaque scalars, never decomposed into fields.
func isOpaqueStruct(t types.Type) bool {
	if _, ok := t.Underlying().(*types.Struct); !ok {
		return false
	}
	n, ok := t.(*types.Named)
	if !ok {
		return false
	}
	if n.Obj().Pkg() == nil {
		return true
	}
	p := n.Obj().Pkg().Path()
	return !(p == repoModule || strings.HasPrefix(p, repoModule+"/"))
}

// isRepoStruct: struct-typed values are embedded sub-objects (identity sub(owner, field)), whatever
// package declares them; their fields live in the heap maps of their own type.
func isRepoStruct(t types.Type) bool {
	_, ok := t.Underlying().(*types.Struct)
	return ok
}

// isRefType: values of these types are references to allocated objects (or nil)
func isRefType(t types.Type) bool {
	switch u := t.Underlying().(type) {
	case *types.Pointer:
		_, ok := u.Elem().Underlying().(*types.Struct)
		return ok
	case *types.Map, *types.Chan:
		return true
	}
	return false
}
