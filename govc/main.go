package main

import (
	"fmt"
	"os"

	"golang.org/x/tools/go/packages"
	"golang.org/x/tools/go/ssa"
	"golang.org/x/tools/go/ssa/ssautil"
)

func main() {
	cfg := &packages.Config{Mode: packages.LoadAllSyntax, Dir: "/repo", BuildFlags: []string{"-tags=verif"}}
	pkgs, err := packages.Load(cfg, os.Args[2:]...)
	if err != nil {
		panic(err)
	}
	prog, spkgs := ssautil.AllPackages(pkgs, ssa.NaiveForm|ssa.GlobalDebug)
	prog.Build()
	for _, p := range spkgs {
		for _, m := range p.Members {
			if f, ok := m.(*ssa.Function); ok && f.Name() == os.Args[1] {
				f.WriteTo(os.Stdout)
			}
		}
		for _, m := range p.Members {
			if t, ok := m.(*ssa.Type); ok {
				ms := prog.MethodSets.MethodSet(t.Type())
				_ = ms
				for _, tt := range []interface{}{t} {
					_ = tt
				}
			}
		}
	}
	for f := range ssautil.AllFunctions(prog) {
		if f.Name() == os.Args[1] && f.Pkg != nil {
			fmt.Println("==", f.String())
			f.WriteTo(os.Stdout)
		}
	}
}
