package main

import (
	"encoding/json"
	"flag"
	"fmt"
	"os"
	"path/filepath"
	"sort"
	"strings"
	"time"

	"golang.org/x/tools/go/ssa"
)

func usage() {
	fmt.Fprintln(os.Stderr, `usage:
  govc check <Cnn> [--tier quick|thorough] [--repo DIR] [--verif DIR] [--func KEY] [-v]
  govc dump <funckey> [--repo DIR]
  govc list [--repo DIR]                      (contracts and the properties they serve)`)
	os.Exit(2)
}

func main() {
	if len(os.Args) < 2 {
		usage()
	}
	switch os.Args[1] {
	case "check":
		os.Exit(cmdCheck(os.Args[2:]))
	case "dump":
		os.Exit(cmdDump(os.Args[2:]))
	case "list":
		os.Exit(cmdList(os.Args[2:]))
	case "replay":
		os.Exit(cmdReplay(os.Args[2:]))
	case "optgen":
		os.Exit(cmdOptgen(os.Args[2:]))
	case "optdef":
		os.Exit(cmdOptdef(os.Args[2:]))
	case "prelude":
		fmt.Print("(set-logic ALL)\n" + Prelude() + "(check-sat)\n")
	default:
		usage()
	}
}

func hasProp(ps []string, p string) bool {
	for _, x := range ps {
		if x == p {
			return true
		}
	}
	return false
}

func splitArgs(args []string) (pos []string, flags []string) {
	for i := 0; i < len(args); i++ {
		a := args[i]
		if strings.HasPrefix(a, "-") {
			flags = append(flags, a)
			if !strings.Contains(a, "=") && a != "-v" && i+1 < len(args) && !strings.HasPrefix(args[i+1], "-") {
				flags = append(flags, args[i+1])
				i++
			}
		} else {
			pos = append(pos, a)
		}
	}
	return
}

func cmdDump(args []string) int {
	pos, fl := splitArgs(args)
	fs := flag.NewFlagSet("dump", flag.ExitOnError)
	repo := fs.String("repo", "/repo", "")
	verif := fs.String("verif", "/verif", "")
	fs.Parse(fl)
	if len(pos) < 1 {
		usage()
	}
	v, err := NewVerifier(*repo, *verif)
	if err != nil {
		fmt.Fprintln(os.Stderr, err)
		return 2
	}
	f := v.fnByKey[pos[0]]
	if f == nil {
		fmt.Fprintln(os.Stderr, "no such function; candidates:")
		var ks []string
		for k := range v.fnByKey {
			if strings.Contains(k, pos[0]) {
				ks = append(ks, k)
			}
		}
		sort.Strings(ks)
		for _, k := range ks {
			fmt.Fprintln(os.Stderr, "  ", k)
		}
		return 2
	}
	f.WriteTo(os.Stdout)
	loops := computeLoops(f)
	for h, li := range loops {
		fmt.Printf("loop %d: head block %d, %d blocks\n", li.ord, h.Index, len(li.body))
	}
	sites := v.callSites(f)
	var lines []string
	for in, s := range sites {
		lines = append(lines, fmt.Sprintf("%s: %s", v.fset.Position(in.Pos()), strings.Join(s, " ")))
	}
	sort.Strings(lines)
	for _, l := range lines {
		fmt.Println("call site", l)
	}
	return 0
}

func cmdList(args []string) int {
	_, fl := splitArgs(args)
	fs := flag.NewFlagSet("list", flag.ExitOnError)
	repo := fs.String("repo", "/repo", "")
	verif := fs.String("verif", "/verif", "")
	fs.Parse(fl)
	v, err := NewVerifier(*repo, *verif)
	if err != nil {
		fmt.Fprintln(os.Stderr, err)
		return 2
	}
	var ks []string
	for k := range v.specs.Funcs {
		ks = append(ks, k)
	}
	sort.Strings(ks)
	for _, k := range ks {
		fc := v.specs.Funcs[k]
		st := "ok"
		if v.fnByKey[k] == nil && !fc.Trusted {
			st = "UNRESOLVED"
		}
		fmt.Printf("%-70s %-20s trusted=%v %s\n", k, strings.Join(fc.Props, ","), fc.Trusted, st)
	}
	for _, e := range v.specs.Errors {
		fmt.Println("SPEC ERROR:", e)
	}
	return 0
}

// ---------- check ----------

type KnownFinding struct {
	Property   string `json:"property"`
	Obligation string `json:"obligation"`
	Witness    string `json:"witness"`
	Status     string `json:"status"` // open | fixed
	Commit     string `json:"commit,omitempty"`
	What       string `json:"what"`
}

type oblReport struct {
	Name    string   `json:"obligation"`
	Func    string   `json:"function"`
	Kind    string   `json:"kind"`
	Where   string   `json:"where"`
	Clause  string   `json:"clause,omitempty"`
	Queries int      `json:"queries"`
	Status  string   `json:"status"`
	Solvers []string `json:"solvers,omitempty"`
	TimeS   float64  `json:"solver_time_s"`
}

func cmdCheck(args []string) int {
	t0 := time.Now()
	pos, fl := splitArgs(args)
	fs := flag.NewFlagSet("check", flag.ExitOnError)
	tier := fs.String("tier", "", "quick|thorough")
	repo := fs.String("repo", "/repo", "")
	verif := fs.String("verif", "/verif", "")
	only := fs.String("func", "", "restrict to one function key (debug; no evidence written)")
	outDir := fs.String("out", "", "directory for work/, replays/, evidence/ (default: the verif directory)")
	verbose := fs.Bool("v", false, "")
	keep := fs.Bool("keep", false, "keep all SMT files")
	fs.Parse(fl)
	if len(pos) != 1 {
		usage()
	}
	prop := pos[0]
	if *tier == "" {
		*tier = os.Getenv("VERIF_TIER")
	}
	if *tier == "" {
		*tier = "quick"
	}
	seed := 0
	fmt.Sscanf(os.Getenv("VERIF_SEED"), "%d", &seed)
	timeoutS := 10
	if *tier == "thorough" {
		timeoutS = 60
	}

	v, err := NewVerifier(*repo, *verif)
	if err != nil {
		fmt.Fprintln(os.Stderr, "govc: load failed:", err)
		return 2
	}
	v.tier = *tier
	v.curProp = prop
	if len(v.specs.Errors) > 0 {
		for _, e := range v.specs.Errors {
			fmt.Fprintln(os.Stderr, "govc: spec error:", e)
		}
		return 2
	}
	if *outDir == "" {
		*outDir = *verif
	}
	workDir := filepath.Join(*outDir, "work", prop)
	os.RemoveAll(workDir)
	os.MkdirAll(workDir, 0o755)

	// functions under contract for this property
	var keys []string
	for k, fc := range v.specs.Funcs {
		if (hasProp(fc.Props, prop) || clauseHasProp(fc, prop)) && !fc.Trusted && (!fc.NoVerify || len(fc.Flows) > 0) {
			keys = append(keys, k)
		}
	}
	sort.Strings(keys)
	var undecided []string
	var results []*FuncResult
	var allQ []*Query
	var obls []*Obl
	trusted := map[string]bool{}
	inlined := map[string]bool{}
	usedContracts := map[string]bool{}
	for _, k := range keys {
		if *only != "" && k != *only {
			continue
		}
		fc := v.specs.Funcs[k]
		if fc.Asset != nil {
			for _, r := range v.VerifyAsset(fc) {
				results = append(results, r)
				for _, u := range r.Undecided {
					undecided = append(undecided, fmt.Sprintf("func=%s reason=%s", r.Key, u))
				}
				for _, o := range r.Obls {
					if o.Props != nil && !hasProp(o.Props, prop) {
						continue
					}
					obls = append(obls, o)
					allQ = append(allQ, o.Queries...)
				}
			}
			continue
		}
		f := v.fnByKey[k]
		if f == nil || f.Blocks == nil {
			undecided = append(undecided, fmt.Sprintf("func=%s reason=contract key does not resolve to a function with a body", k))
			continue
		}
		variants := []*FuncContract{fc}
		if *tier == "thorough" {
			if tc, ok := v.specs.Thor[k]; ok && hasProp(tc.Props, prop) {
				variants = append(variants, tc)
			}
		}
		for vi, vc := range variants {
			r := v.VerifyFunc(f, vc)
			if vi > 0 {
				r.Key += "[thorough]"
				for _, o := range r.Obls {
					o.Name = strings.Replace(o.Name, k+"/", k+"[thorough]/", 1)
				}
			}
			results = append(results, r)
			for _, u := range r.Undecided {
				undecided = append(undecided, fmt.Sprintf("func=%s reason=%s", r.Key, u))
			}
			for t := range r.Ctx.trusted {
				trusted[t] = true
			}
			for t := range r.Ctx.inlined {
				inlined[t] = true
			}
			for t := range r.Ctx.usedContracts {
				usedContracts[t] = true
			}
			for _, o := range r.Obls {
				if o.Props != nil && !hasProp(o.Props, prop) {
					continue
				}
				// an obligation without a tag of its own belongs to the properties named on the function header
				if o.Props == nil && !hasProp(vc.Props, prop) {
					continue
				}
				obls = append(obls, o)
				allQ = append(allQ, o.Queries...)
			}
		}
	}
	for fld, sf := range v.specs.Secrets {
		if !hasProp(sf.Props, prop) || *only != "" {
			continue
		}
		for _, r := range sf.Readers {
			fc := v.specs.Funcs[r]
			if fc == nil || !hasProp(fc.Props, prop) || len(fc.Flows) == 0 {
				undecided = append(undecided, fmt.Sprintf("func=%s reason=listed as reader of secret %s but has no flows clause for %s", r, fld, prop))
			}
		}
	}
	for _, e := range v.specs.Errors {
		fmt.Fprintln(os.Stderr, "govc: spec error:", e)
	}
	if len(v.specs.Errors) > 0 {
		return 2
	}
	knownPre := loadKnown(filepath.Join(*verif, "known_findings.json"))
	var mainQ []*Query
	var knownQ []*Query
	for _, q := range allQ {
		if kf := matchKnown(knownPre, prop, q.Obl.Name); kf != nil && kf.Status == "open" {
			knownQ = append(knownQ, q) // recorded open finding: one short attempt, no retry
		} else {
			mainQ = append(mainQ, q)
		}
	}
	solveAll(mainQ, workDir, timeoutS, 16)
	if len(knownQ) > 0 {
		solveAll(knownQ, filepath.Join(workDir, "known"), 3, 8)
	}
	// second chance under low load and with a longer limit: a query that is slow only because sixteen
	// solvers ran at once must not become an alarm
	var retry []*Query
	for _, q := range mainQ {
		if q.Status != "unsat" && q.Status != "trivial" {
			retry = append(retry, q)
		}
	}
	if len(retry) > 0 && len(retry) <= 64 {
		solveAll(retry, filepath.Join(workDir, "retry"), timeoutS*2, 8)
	}

	// vacuity: each function must have at least one reachable return
	var vacuous []string
	ncover := 0
	var coverQs []*Query
	for _, r := range results {
		if len(r.Undecided) > 0 {
			continue
		}
		for i, cq := range r.Covers {
			if i >= 8 {
				break
			}
			coverQs = append(coverQs, cq)
		}
	}
	// call-site covers: an assumed callee postcondition that makes a satisfiable state unsatisfiable is an
	// inconsistent contract (everything after the call would be proved vacuously)
	var ccs []*CallCover
	for _, r := range results {
		if len(r.Undecided) > 0 {
			continue
		}
		for _, cc := range r.Ctx.callCovers {
			ccs = append(ccs, cc)
			coverQs = append(coverQs, cc.After)
		}
	}
	type blockCov struct {
		fn    string
		where string
		qs    []*Query
	}
	var bcs []blockCov
	for _, r := range results {
		if len(r.Undecided) > 0 {
			continue
		}
		if len(r.Ctx.callCovers) == 0 && r.Loops == 0 {
			continue // leaf function without loops: nothing assumed that could contradict
		}
		for b, qs := range r.Ctx.blockCovers {
			where := "-"
			for _, in := range b.Instrs {
				if in.Pos().IsValid() {
					where = r.Ctx.posStr(in.Pos())
					break
				}
			}
			if where == "-" || b.Comment == "recover" {
				continue
			}
			bcs = append(bcs, blockCov{r.Key, fmt.Sprintf("block %d (%s) at %s", b.Index, b.Comment, where), qs})
			coverQs = append(coverQs, qs...)
		}
	}
	solveCovers(coverQs, workDir, 16)
	var unreachable []string
	for _, bc := range bcs {
		dead := true
		for _, q := range bc.qs {
			if q.Status != "unsat" {
				dead = false
			}
		}
		if dead {
			unreachable = append(unreachable, bc.fn+": "+bc.where)
		}
	}
	sort.Strings(unreachable)
	var befores []*Query
	for _, cc := range ccs {
		if cc.After.Status == "unsat" {
			befores = append(befores, cc.Before)
		}
	}
	solveCovers(befores, workDir, 16)
	var inconsistent []string
	for _, cc := range ccs {
		if cc.After.Status == "unsat" && cc.Before.Status != "unsat" {
			inconsistent = append(inconsistent, fmt.Sprintf("func=%s call=%s at %s", cc.After.Obl.Fn, cc.Callee, cc.Where))
		}
	}
	sort.Strings(inconsistent)
	ncover = len(coverQs) + len(befores)
	for _, r := range results {
		if len(r.Undecided) > 0 || len(r.Covers) == 0 {
			continue
		}
		reach := len(r.Covers) > 8
		for i, cq := range r.Covers {
			if i >= 8 {
				break
			}
			if cq.Status != "unsat" {
				reach = true
			}
		}
		if !reach {
			vacuous = append(vacuous, r.Key)
		}
	}

	// verdicts
	known := loadKnown(filepath.Join(*verif, "known_findings.json"))
	var reports []oblReport
	byBackend := map[string]int{}
	discharged, total := 0, 0
	solverTime, maxTime := 0.0, 0.0
	nViol := 0
	exit := 0
	var samples []map[string]interface{}
	replayDir := filepath.Join(*outDir, "replays", prop)
	os.RemoveAll(replayDir)
	os.MkdirAll(replayDir, 0o755)
	sort.SliceStable(obls, func(i, j int) bool { return obls[i].Name < obls[j].Name })
	for _, o := range obls {
		total++
		ok := true
		var failQ *Query
		rep := oblReport{Name: o.Name, Func: o.Fn, Kind: o.Kind, Clause: o.Src, Queries: len(o.Queries)}
		if len(o.Queries) > 0 {
			rep.Where = o.Queries[0].Ctx.posStr(o.Pos)
		}
		ss := map[string]bool{}
		for _, q := range o.Queries {
			rep.TimeS += q.TimeS
			solverTime += q.TimeS
			if q.TimeS > maxTime {
				maxTime = q.TimeS
			}
			switch q.Status {
			case "unsat":
				byBackend[q.Solver]++
				ss[q.Solver] = true
			case "trivial":
				byBackend["syntactic"]++
				ss["syntactic"] = true
			default:
				ok = false
				if failQ == nil {
					failQ = q
				}
			}
		}
		rep.Solvers = sortedKeys(ss)
		if ok {
			discharged++
			rep.Status = "discharged"
			if len(samples) < 3 && len(o.Queries) > 0 && o.Queries[0].Status == "unsat" {
				q := o.Queries[0]
				samples = append(samples, map[string]interface{}{"obligation": o.Name, "where": rep.Where, "path": q.Trace, "goal": q.Goal, "assumptions_on_path": len(q.PC), "clause": o.Src})
			}
		} else {
			rep.Status = "FAILED(" + failQ.Status + ")"
			kf := matchKnown(known, prop, o.Name)
			replayPath := filepath.Join(replayDir, sanitize(o.Name)+".json")
			found := writeReplay(v, replayPath, prop, o, failQ, rep.Where)
			if kf != nil && kf.Status == "open" {
				fmt.Printf("KNOWN-FINDING: property=%s %s -- %s\n", prop, o.Name, kf.What)
			} else {
				nViol++
				exit = 1
				suffix := ""
				if !found {
					suffix = " no-failing-input-found"
				}
				fmt.Printf("VIOLATION property=%s replay=%s obligation=%s at %s%s\n", prop, replayPath, o.Name, rep.Where, suffix)
			}
		}
		reports = append(reports, rep)
		if *verbose {
			fmt.Printf("  %-12s %s  (%d queries, %.2fs) %s\n", rep.Status, o.Name, len(o.Queries), rep.TimeS, rep.Where)
			for _, q := range o.Queries {
				if q.Status != "unsat" && q.Status != "trivial" {
					fmt.Printf("      %s path=%s file=%s\n", q.Status, q.Trace, q.File)
				}
			}
		}
	}
	for _, u := range undecided {
		fmt.Printf("UNDECIDED property=%s %s\n", prop, u)
	}
	for _, f := range vacuous {
		fmt.Printf("VACUOUS property=%s func=%s (no return point reachable under the stated preconditions)\n", prop, f)
	}
	for _, u := range unreachable {
		fmt.Printf("NOTE unreachable-block property=%s %s (no explored path reaches it under the contracts in force)\n", prop, u)
	}
	for _, f := range inconsistent {
		fmt.Printf("INCONSISTENT-CONTRACT property=%s %s (assuming the callee's postcondition contradicts the state at the call)\n", prop, f)
		vacuous = append(vacuous, "inconsistent: "+f)
	}
	// expected obligations guard
	expected := loadExpected(filepath.Join(*verif, "expected_obligations.json"))
	var missing []string
	if exp, ok := expected[prop]; ok && *only == "" {
		have := map[string]bool{}
		for _, o := range obls {
			have[o.Name] = true
		}
		for _, n := range exp {
			if strings.Contains(n, "[thorough]") && *tier != "thorough" {
				continue
			}
			if !have[n] {
				missing = append(missing, n)
			}
		}
		for _, m := range missing {
			fmt.Printf("MISSING-OBLIGATION property=%s %s (generated on the reference tree, not generated now)\n", prop, m)
		}
	}
	if os.Getenv("GOVC_WRITE_EXPECTED") != "" && *only == "" {
		var names []string
		for _, o := range obls {
			names = append(names, o.Name)
		}
		sort.Strings(names)
		expected[prop] = names
		b, _ := json.MarshalIndent(expected, "", " ")
		os.WriteFile(filepath.Join(*verif, "expected_obligations.json"), b, 0o644)
	}

	wall := time.Since(t0).Seconds()
	fmt.Printf("govc: property=%s tier=%s functions=%d obligations=%d discharged=%d queries=%d undecided=%d violations=%d wall=%.1fs\n",
		prop, *tier, len(results), total, discharged, len(allQ), len(undecided), nViol, wall)
	if *only != "" {
		return exit
	}
	// evidence
	level := "proof"
	expl := ""
	if len(undecided) > 0 || len(vacuous) > 0 || total == 0 || len(missing) > 0 || discharged != total {
		level = "other"
		expl = fmt.Sprintf("level dropped from proof: undecided=%d vacuous=%d missing_obligations=%d obligations=%d discharged=%d (undischarged obligations are recorded known findings or reported violations)", len(undecided), len(vacuous), len(missing), total, discharged)
	}
	var fkeys []string
	for _, r := range results {
		fkeys = append(fkeys, r.Key)
	}
	var tb []string
	tb = append(tb, "govc itself (SSA semantics, SMT encoding, path enumeration) and the solvers z3-new 5.1.0 / z3 4.8.12 / cvc5 1.0.3")
	tb = append(tb, sortedKeys(trusted)...)
	for k := range inlined {
		tb = append(tb, "inlined (verified as part of the caller): "+k)
	}
	sort.Strings(tb[1:])
	var assum []string
	assum = append(assum, sortedKeys(v.assumptions)...)
	assum = append(assum, "A-NILEMPTY: nil and empty slices are identified (s == nil is len(s) == 0)")
	assum = append(assum, "A-SEQ: slices, arrays and strings are mathematical sequences (value semantics); element stores are accepted only into sequences allocated in the same function")
	assum = append(assum, "A-MEM: 0 <= len(s) <= 2^47 for every sequence")
	assum = append(assum, "A-SEQUENTIAL: every function is verified as a single goroutine; sync.Mutex operations are no-ops; blocking is not modelled")
	nflow, nasset := 0, 0
	for _, o := range obls {
		switch o.Kind {
		case "flow", "readers", "guarded":
			nflow++
		case "asset":
			nasset++
		}
	}
	if nflow > 0 {
		assum = append(assum, fmt.Sprintf("A-FLOW: %d information-flow obligations (kinds flow/readers) are decided by a syntactic taint propagation over the SSA of the function, not by the solver (back end `syntactic`): explicit flows only - values derived by conversion, slicing, concatenation, boxing, phi, element access, local stores; comparisons, lengths and control dependence are not tracked; a listed sink consumes the value and the callee's own clause answers for it", nflow))
	}
	if nasset > 0 {
		assum = append(assum, fmt.Sprintf("A-YAML: %d data obligations (kind asset) are about embedded files parsed by govc with yaml.v3 into ground facts; yaml.v3 is assumed to decode that node tree into the Go structures according to their struct tags", nasset))
	}
	for i, ax := range v.axiomTerms {
		// only the axioms that were part of at least one query of this property
		if v.axiomUsed[i] {
			assum = append(assum, "axiom "+ax.name+": "+ax.src)
		}
	}
	ev := map[string]interface{}{
		"property_id": prop,
		"tier":        *tier,
		"seed":        seed,
		"level":       level,
		"wall_s":      wall,
		"violations":  nViol,
		"assumptions": assum,
		"coverage": map[string]interface{}{
			"obligations":              total,
			"discharged":               discharged,
			"checker_cmd":              fmt.Sprintf("bin/govc check %s --tier %s (go/ssa naive form of /repo working tree -> path VCs -> z3-new | z3 | cvc5, %ds per query)", prop, *tier, timeoutS),
			"trusted_base":             tb,
			"functions_under_contract": fkeys,
			"callee_contracts_used":    sortedKeys(usedContracts),
			"queries":                  len(allQ),
			"by_backend":               byBackend,
			"solver_time_s":            map[string]float64{"sum": round3(solverTime), "max_single_query": round3(maxTime)},
			"cover_queries":            ncover,
			"vacuous_functions":        vacuous,
			"unreachable_blocks":       unreachable,
			"undecided":                undecided,
			"missing_obligations":      missing,
			"obligation_list":          reports,
			"samples":                  samples,
			"explanation":              expl,
			"evaluations":              len(allQ),
			"distinct_nontrivial":      countNonTrivial(allQ),
			"rule":                     "one SMT query per (path, obligation); non-trivial = not closed syntactically by the generator",
			"bounded_standins":         []string{},
		},
	}
	os.MkdirAll(filepath.Join(*outDir, "evidence"), 0o755)
	b, _ := json.MarshalIndent(ev, "", " ")
	os.WriteFile(filepath.Join(*outDir, "evidence", prop+".json"), b, 0o644)
	if !*keep && exit == 0 {
		os.RemoveAll(workDir)
	}
	return exit
}

// clauseHasProp: a clause of the contract is tagged with the property although the function header is not
func clauseHasProp(fc *FuncContract, prop string) bool {
	for _, cl := range fc.Clauses {
		if hasProp(cl.Props, prop) {
			return true
		}
	}
	for _, fl := range fc.Flows {
		if hasProp(fl.Props, prop) {
			return true
		}
	}
	return false
}

func countNonTrivial(qs []*Query) int {
	seen := map[string]bool{}
	for _, q := range qs {
		if q.Status != "trivial" {
			seen[q.Obl.Name+"|"+q.Trace] = true
		}
	}
	return len(seen)
}

func round3(f float64) float64 { return float64(int(f*1000)) / 1000 }

func sanitize(s string) string {
	r := strings.NewReplacer("/", "__", "*", "", "(", "", ")", "", "$", "_", "#", "-", "@", "_at_", " ", "_", ">", "_", "~", "_")
	return r.Replace(s)
}

func loadKnown(path string) []KnownFinding {
	var k struct {
		Findings []KnownFinding `json:"findings"`
	}
	b, err := os.ReadFile(path)
	if err != nil {
		return nil
	}
	json.Unmarshal(b, &k)
	return k.Findings
}

func matchKnown(ks []KnownFinding, prop, obl string) *KnownFinding {
	for i := range ks {
		if ks[i].Property == prop && ks[i].Obligation == obl {
			return &ks[i]
		}
	}
	return nil
}

func loadExpected(path string) map[string][]string {
	m := map[string][]string{}
	b, err := os.ReadFile(path)
	if err != nil {
		return m
	}
	json.Unmarshal(b, &m)
	return m
}

// writeReplay stores the failed obligation, solver output and (when found) a counterexample; returns whether a
// failing input was found and reproduced on the real code.
func writeReplay(v *Verifier, path, prop string, o *Obl, q *Query, where string) bool {
	rp := map[string]interface{}{
		"property":      prop,
		"obligation":    o.Name,
		"function":      o.Fn,
		"kind":          o.Kind,
		"where":         where,
		"clause":        o.Src,
		"path":          q.Trace,
		"solver_status": q.Status,
		"solver_output": q.Output,
		"goal":          q.Goal,
		"smt_file":      q.File,
	}
	found := false
	if o.Kind == "flow" || o.Kind == "readers" {
		rp["note"] = "information-flow obligation decided syntactically on the SSA of the function; the clause text names the offending use; no input is involved"
	} else if o.Kind == "guarded" {
		rp["note"] = "lock-discipline obligation decided syntactically on the SSA (must-hold dataflow of Lock/Unlock calls); the clause text names the unguarded access; a schedule that exploits it is not constructed"
	} else if o.Kind == "asset" {
		rp["note"] = "data obligation: the embedded file named in `where`, described to the solver as ground facts, does not satisfy the clause; the failing input is the file itself (load it with platform.NewPlatform to observe the effect)"
	} else {
		found = tryReplay(v, o, q, rp)
	}
	rp["failing_input_found"] = found
	b, _ := json.MarshalIndent(rp, "", " ")
	os.WriteFile(path, b, 0o644)
	return found
}

func cmdReplay(args []string) int {
	if len(args) < 1 {
		usage()
	}
	b, err := os.ReadFile(args[0])
	if err != nil {
		fmt.Fprintln(os.Stderr, err)
		return 2
	}
	var rp map[string]interface{}
	json.Unmarshal(b, &rp)
	fmt.Printf("obligation: %v\nfunction:   %v\nwhere:      %v\nclause:     %v\nsolver:     %v\n%v\n", rp["obligation"], rp["function"], rp["where"], rp["clause"], rp["solver_status"], rp["solver_output"])
	if t, ok := rp["replay_test"].(string); ok && t != "" {
		return runReplayTest(rp)
	}
	fmt.Println("no-failing-input-found: the replay file carries the failed obligation and the solver output only")
	return 1
}

var _ = ssa.NaiveForm
