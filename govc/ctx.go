package main

import (
	"fmt"
	"go/token"
	"go/types"
	"sort"
	"strings"

	"golang.org/x/tools/go/ssa"
)

type Obl struct {
	Fn       string
	Kind     string // index slice nilmap typeassert panic pre post inv-init inv-keep variant atreturn atcall frame chan div cover
	Detail   string
	Label    string
	Pos      token.Pos
	Props    []string // nil => all properties of the function
	Src      string   // contract clause text, if any
	Queries  []*Query
	Name     string // assigned after the run
	Ord      int
	InlineOf string
	Seq      int
	Clause   *Clause // the contract clause behind a post/atreturn obligation (for the replay oracle)
	FnSSA    *ssa.Function
}

type Query struct {
	Obl   *Obl
	PC    []string
	Goal  string
	NDecl int
	Trace string
	Ctx   *Ctx
	// result
	Status   string // unsat sat unknown timeout error trivial
	Solver   string
	TimeS    float64
	Output   string
	ModelTxt string
	File     string
}

// CallCover: satisfiability of the path condition right before and right after assuming a callee's postcondition
type CallCover struct {
	Callee, Where string
	Before, After *Query
}

type Frame struct {
	fn       *ssa.Function
	fc       *FuncContract
	onReturn func(st *State, results []Val)
	depth    int
	loops    map[*ssa.BasicBlock]*loopInfo
	params   map[string]Val // entry values by name
	entry    *State
	callIdx  map[string]int
	inlineOf string
	ghosts   map[string]Val
}

type loopInfo struct {
	head    *ssa.BasicBlock
	ord     int
	body    map[*ssa.BasicBlock]bool
	cells   []interface{}        // cells stored to in the loop
	fields  map[string][]baseRef // heap key -> objects written (nil entry => wholesale)
	whole   map[string]bool
	hasCall bool
}

// Ctx verifies one function.
type Ctx struct {
	loopNotes map[string]bool // loop clauses that could not be stated (paths through those loops are undecided)
	V             *Verifier
	Fn            *ssa.Function
	FC            *FuncContract
	Key           string
	decls         []string
	declSet       map[string]bool
	nfresh        int
	nepoch        int
	obls          map[string]*Obl
	oblOrder      []*Obl
	paths         int
	maxPaths      int
	undecided     []string
	trusted       map[string]bool // assumptions / trusted callees used
	inlined       map[string]bool
	usedContracts map[string]bool
	allocSite     map[ssa.Instruction]int
	seenSentinels []string
	curClause     *Clause
	directStores  map[interface{}]bool // cells a loop assigns directly (as opposed to element-wise)
	callCovered   map[string]bool
	blockCovers   map[*ssa.BasicBlock][]*Query
	assetFile     string // set for data obligations over an embedded file
	callCovers    []*CallCover
}

func (c *Ctx) declare(line string) {
	if c.declSet[line] {
		return
	}
	c.declSet[line] = true
	c.decls = append(c.decls, line)
}

func (c *Ctx) freshName(hint string) string {
	c.nfresh++
	return fmt.Sprintf("%s!%d", smtIdent(hint), c.nfresh)
}

func (c *Ctx) fresh(hint string, sort Sort) Term {
	n := c.freshName(hint)
	c.declare(fmt.Sprintf("(declare-const %s %s)", n, sort))
	return Term{S: n, Sort: sort}
}

func (c *Ctx) freshTyped(st *State, hint string, t types.Type) Term {
	s := mustSort(t)
	v := c.fresh(hint, s)
	v.GoT = t
	st.assume(intRange(t, v))
	return v
}

func arrSort(val Sort) Sort { return Sort("(Array Int " + string(val) + ")") }

// heap access ---------------------------------------------------------------

func (c *Ctx) heapCur(st *State, key string, sort Sort) Term {
	if t, ok := st.heap[key]; ok {
		return t
	}
	n := fmt.Sprintf("%s_%d", key, st.epoch)
	c.declare(fmt.Sprintf("(declare-const %s %s)", n, sort))
	return Term{S: n, Sort: sort}
}

func (c *Ctx) heapHavoc(st *State, key string, sort Sort) Term {
	n := c.freshName(key)
	c.declare(fmt.Sprintf("(declare-const %s %s)", n, sort))
	t := Term{S: n, Sort: sort}
	st.heap[key] = t
	return t
}

type fieldInfo struct {
	Key    string
	Sort   Sort
	GoT    types.Type
	Idx    int
	Struct *types.Struct
	Owner  types.Type
}

func structOf(t types.Type) (*types.Struct, types.Type) {
	t = deref(t)
	s, ok := t.Underlying().(*types.Struct)
	if !ok {
		return nil, nil
	}
	return s, t
}

func (c *Ctx) fieldByIndex(ptrOrStruct types.Type, idx int) fieldInfo {
	s, owner := structOf(ptrOrStruct)
	if s == nil {
		unsupp("field access on non-struct %s", ptrOrStruct)
	}
	f := s.Field(idx)
	so, ok := sortOf(f.Type())
	if !ok {
		so = SInt // opaque
	}
	key := "H_" + shortTypeName(owner) + "_" + f.Name()
	c.V.heapKeys[key] = heapKeyInfo{Owner: typeKey(owner), Field: f.Name(), Sort: so}
	return fieldInfo{Key: key, Sort: so, GoT: f.Type(), Idx: idx, Struct: s, Owner: owner}
}

// fieldByName resolves (possibly promoted through embedded fields) name on type t.
// Returns the chain of field indices.
func fieldPath(t types.Type, name string) ([]int, bool) {
	s, _ := structOf(t)
	if s == nil {
		return nil, false
	}
	for i := 0; i < s.NumFields(); i++ {
		if s.Field(i).Name() == name {
			return []int{i}, true
		}
	}
	for i := 0; i < s.NumFields(); i++ {
		f := s.Field(i)
		if f.Embedded() {
			if p, ok := fieldPath(f.Type(), name); ok {
				return append([]int{i}, p...), true
			}
		}
	}
	return nil, false
}

func (c *Ctx) loadField(st *State, ref Term, fi fieldInfo) Term {
	if isRepoStruct(fi.GoT) {
		// embedded value struct: its identity is a sub-object reference
		t := mk(SInt, "(sub %s %d)", ref.S, c.V.typeID(fi.Key))
		t.GoT = types.NewPointer(fi.GoT)
		return t
	}
	h := c.heapCur(st, fi.Key, arrSort(fi.Sort))
	v := sel(h, ref, fi.Sort)
	v.GoT = fi.GoT
	return v
}

func (c *Ctx) storeField(st *State, ref Term, fi fieldInfo, v Term) {
	h := c.heapCur(st, fi.Key, arrSort(fi.Sort))
	st.heap[fi.Key] = sto(h, ref, c.coerce(v, fi.Sort))
}

func (c *Ctx) coerce(v Term, s Sort) Term {
	if v.Sort == s {
		return v
	}
	if v.Sort == SInt && s.isSeq() && v.S == "0" {
		return emptyOf(s)
	}
	unsupp("sort mismatch: %s : %s used as %s", v.S, v.Sort, s)
	return v
}

// alive ----------------------------------------------------------------------

const aliveKey = "alive"

func (c *Ctx) aliveCur(st *State) Term {
	return c.heapCur(st, aliveKey, Sort("(Array Int Bool)"))
}

func (c *Ctx) allocRef(st *State, hint string) Term {
	r := c.fresh(hint, SInt)
	al := c.aliveCur(st)
	st.assume(mk(SBool, "(not (select %s %s))", al.S, r.S))
	st.assume(mk(SBool, "(not (= %s 0))", r.S))
	st.heap[aliveKey] = Term{S: fmt.Sprintf("(store %s %s true)", al.S, r.S), Sort: al.Sort}
	return r
}

func (c *Ctx) assumeAlive(st *State, r Term) {
	al := c.aliveCur(st)
	st.assume(mk(SBool, "(or (= %s 0) (select %s %s))", r.S, al.S, r.S))
}

// obligations ------------------------------------------------------------------

func (c *Ctx) oblige(st *State, fr *Frame, kind, detail, label string, pos token.Pos, goal Term, props []string, src string) {
	if fr != nil && fr.fc != nil && fr.fc.NoSafety && fr.inlineOf == "" {
		switch kind {
		case "index", "slice", "nilmap", "typeassert", "div", "makeslice", "nilderef":
			// `nosafety`: the function is under contract for a property that says nothing about these; assumed, and said so
			c.V.assumptions["A-NOSAFETY: run-time safety obligations (index, slice, nil map, type assertion) of "+c.Key+" are not generated (outside the property it is under contract for); the conditions are assumed"] = true
			st.assume(goal)
			return
		}
	}
	fnKey := c.Key
	inl := ""
	if fr != nil && fr.inlineOf != "" {
		inl = fr.inlineOf
	}
	id := strings.Join([]string{kind, detail, label, fmt.Sprint(int(pos)), inl, src}, "|")
	o := c.obls[id]
	if o == nil {
		o = &Obl{Fn: fnKey, Kind: kind, Detail: detail, Label: label, Pos: pos, Props: props, Src: src, InlineOf: inl, Seq: len(c.oblOrder), Clause: c.curClause, FnSSA: c.Fn}
		c.obls[id] = o
		c.oblOrder = append(c.oblOrder, o)
	}
	q := &Query{Obl: o, PC: append([]string(nil), st.pc...), Goal: goal.S, NDecl: len(c.decls), Trace: strings.Join(st.trace, ">"), Ctx: c}
	if goal.S == "true" {
		q.Status = "trivial"
	}
	o.Queries = append(o.Queries, q)
	if (kind == "atcall" || kind == "atreturn") && !c.ownClause(fr, props) {
		// a call-site / return assertion that belongs to another property only is reported by that property's check; it
		// is not taken for granted here, so that it cannot mask a clause of this property that says the same thing
		return
	}
	st.assume(goal)
}

// ownClause: does a clause with these tags belong to the property being checked? (an untagged clause belongs to the
// properties of the function header)
func (c *Ctx) ownClause(fr *Frame, props []string) bool {
	eff := props
	if eff == nil && fr != nil && fr.fc != nil {
		eff = fr.fc.Props
	}
	return len(eff) == 0 || c.V.curProp == "" || hasProp(eff, c.V.curProp)
}

// nameObligations assigns stable names: fn/kind@detail#label or #ordinal (source order)
func (c *Ctx) nameObligations() {
	groups := map[string][]*Obl{}
	for _, o := range c.oblOrder {
		g := o.Kind + "@" + o.Detail + "#" + o.Label + "~" + o.InlineOf
		groups[g] = append(groups[g], o)
	}
	for _, os := range groups {
		sort.SliceStable(os, func(i, j int) bool {
			if os[i].Pos != os[j].Pos {
				return os[i].Pos < os[j].Pos
			}
			return os[i].Seq < os[j].Seq
		})
		for i, o := range os {
			o.Ord = i + 1
			n := o.Fn + "/" + o.Kind
			if o.Detail != "" {
				n += "@" + o.Detail
			}
			if o.Label != "" {
				n += "#" + o.Label
				if len(os) > 1 {
					n += fmt.Sprintf(".%d", i+1)
				}
			} else {
				n += fmt.Sprintf("#%d", i+1)
			}
			if o.InlineOf != "" {
				n += "~" + o.InlineOf
			}
			o.Name = n
		}
	}
}

func (c *Ctx) posStr(p token.Pos) string {
	if !p.IsValid() && c.assetFile != "" {
		return c.assetFile
	}
	if !p.IsValid() {
		return "-"
	}
	pp := c.V.fset.Position(p)
	return fmt.Sprintf("%s:%d", trimRepo(pp.Filename, c.V.repo), pp.Line)
}

func trimRepo(f, repo string) string {
	return strings.TrimPrefix(strings.TrimPrefix(f, repo), "/")
}

// SMT text for a query --------------------------------------------------------------

func (q *Query) SMT(mode string) string {
	c := q.Ctx
	var b strings.Builder
	body := strings.Join(c.decls[:q.NDecl], "\n") + "\n" + strings.Join(q.PC, "\n") + "\n" + q.Goal
	specDecls := c.V.specDecls(body)
	body2 := body + specDecls
	fmt.Fprintf(&b, "; obligation: %s\n; path: %s\n", q.Obl.Name, q.Trace)
	b.WriteString("(set-option :produce-models true)\n(set-logic ALL)\n")
	b.WriteString(c.V.prelude)
	if strings.Contains(body2, "SeqC") || strings.Contains(body2, "_C ") {
		b.WriteString(PreludeC())
	}
	b.WriteString(c.V.lits.Decls(body2))
	b.WriteString(specDecls)
	for _, d := range c.decls[:q.NDecl] {
		b.WriteString(d)
		b.WriteString("\n")
	}
	for _, p := range q.PC {
		fmt.Fprintf(&b, "(assert %s)\n", p)
	}
	fmt.Fprintf(&b, "(assert (not %s))\n(check-sat)\n", q.Goal)
	return b.String()
}

func sortedKeys(m map[string]bool) []string {
	var out []string
	for k := range m {
		out = append(out, k)
	}
	sort.Strings(out)
	return out
}

var _ = ssa.NaiveForm

// subObjects lists the embedded (struct-typed field) objects of the object ref of struct type t
func (c *Ctx) subObjects(st *State, ref Term, t types.Type, depth int) []Term {
	s, owner := structOf(t)
	if s == nil || depth > 3 {
		return nil
	}
	var out []Term
	for i := 0; i < s.NumFields(); i++ {
		fi := c.fieldByIndex(owner, i)
		if isRepoStruct(fi.GoT) {
			sub := c.loadField(st, ref, fi)
			out = append(out, sub)
			out = append(out, c.subObjects(st, sub, fi.GoT, depth+1)...)
		}
	}
	return out
}
