package main

import (
	"fmt"
	"go/token"
	"go/types"
	"strings"

	"golang.org/x/tools/go/ssa"
)

func (c *Ctx) doCall(st *State, fr *Frame, cc *ssa.CallCommon, instr ssa.Instruction, k func(*State, Val)) {
	fnv := c.get(st, fr, cc.Value)
	var args []Val
	type wb struct {
		addr *Addr
		id   Term
		key  string
		so   Sort
		pre  string
	}
	var wbs []wb
	for _, a := range cc.Args {
		v := c.get(st, fr, a)
		// the address of a local variable of non-struct type passed as an argument (`f(&x)`): the callee sees a
		// first-class pointer whose pointee lives in the per-type pointee heap; the variable's content is copied there
		// before the call and read back after it
		if ad, ok := v.(*Addr); ok && ad.Kind == aCell && ad.Elem != nil {
			if _, isAlloc := ad.Key.(*ssa.Alloc); isAlloc {
				if _, isStruct := ad.Elem.Underlying().(*types.Struct); !isStruct {
					if so, ok := sortOf(ad.Elem); ok && so != SNone {
						if _, isB := cc.Value.(*ssa.Builtin); !isB {
							id := c.addrIdentity(ad)
							id.GoT = types.NewPointer(ad.Elem)
							key := "D_" + shortTypeName(ad.Elem)
							c.V.heapKeys[key] = heapKeyInfo{Owner: typeKey(ad.Elem), Field: "<pointee>", Sort: so}
							h := c.heapCur(st, key, arrSort(so))
							cur := c.valAsTerm(c.loadCell(st, ad))
							nh := sto(h, id, cur)
							st.heap[key] = nh
							c.assumeAlive(st, id)
							// the variable belongs to this activation: its address did not exist at function entry
							st.assume(mk(SBool, "(not (select %s %s))", c.aliveCur(fr.entry).S, id.S))
							wbs = append(wbs, wb{ad, id, key, so, nh.S})
							v = id
						}
					}
				}
			}
		}
		args = append(args, v)
	}
	if len(wbs) > 0 {
		k0 := k
		k = func(st2 *State, r Val) {
			for _, w := range wbs {
				h := c.heapCur(st2, w.key, arrSort(w.so))
				if h.S != w.pre {
					nv := sel(h, w.id, w.so)
					nv.GoT = w.addr.Elem
					c.store(st2, fr, w.addr, nv, token.NoPos)
				}
			}
			k0(st2, r)
		}
	}
	c.doCallVals(st, fr, cc, instr, fnv, args, k)
}

// callTarget describes a resolved callee
type callTarget struct {
	fn      *ssa.Function // may be nil (interface method / dynamic)
	key     string
	sig     *types.Signature
	names   []string // parameter names, receiver first when present
	args    []Val
	bind    []Val
	origins []*Addr // where sequence-typed arguments were loaded from (parallel to args)
	self    *Term   // the function value of a dynamic call
}

func sigParamNames(sig *types.Signature, withRecv bool) []string {
	var names []string
	if withRecv && sig.Recv() != nil {
		n := sig.Recv().Name()
		if n == "" || n == "_" {
			n = "recv"
		}
		names = append(names, n)
	}
	for i := 0; i < sig.Params().Len(); i++ {
		n := sig.Params().At(i).Name()
		if n == "" || n == "_" {
			n = fmt.Sprintf("arg%d", i)
		}
		names = append(names, n)
	}
	return names
}

func (c *Ctx) resolveCall(st *State, fr *Frame, cc *ssa.CallCommon, fnv Val, args []Val) callTarget {
	if cc.IsInvoke() {
		recvT := cc.Value.Type()
		key := typeKey(recvT) + "." + cc.Method.Name()
		sig := cc.Method.Type().(*types.Signature)
		names := append([]string{"recv"}, sigParamNames(sig, false)...)
		recv := c.valAsTerm(fnv)
		return callTarget{key: key, sig: sig, names: names, args: append([]Val{recv}, args...)}
	}
	switch f := fnv.(type) {
	case *FuncVal:
		return c.targetOfFn(f.Fn, args, nil)
	case *Closure:
		return c.targetOfFn(f.Fn, args, f.Bind)
	case Term:
		// dynamic function value; if it is a closure created on this path we know the code
		if cl, ok := c.V.closureOf[f.S]; ok {
			return c.targetOfFn(cl.Fn, args, cl.Bind)
		}
		sig := cc.Value.Type().Underlying().(*types.Signature)
		key := "dyn:" + c.dynKey(fr, cc.Value)
		if _, ok := c.V.specs.Funcs[key]; !ok {
			// fall back to a contract attached to the function type
			tk := "dyn:" + typeKey(cc.Value.Type())
			if _, ok2 := c.V.specs.Funcs[tk]; ok2 {
				key = tk
			}
		}
		self := f
		return callTarget{key: key, sig: sig, names: sigParamNames(sig, false), args: args, self: &self}
	}
	unsupp("call of %T", fnv)
	return callTarget{}
}

func (c *Ctx) dynKey(fr *Frame, v ssa.Value) string {
	switch x := v.(type) {
	case *ssa.UnOp:
		if x.Op == token.MUL {
			switch a := x.X.(type) {
			case *ssa.FieldAddr:
				s, owner := structOf(a.X.Type())
				if s != nil {
					return typeKey(owner) + "." + s.Field(a.Field).Name()
				}
			case *ssa.Alloc:
				return c.V.fnKey(fr.fn) + ":" + a.Comment
			case *ssa.FreeVar:
				return c.V.fnKey(fr.fn) + ":" + a.Name()
			}
		}
	case *ssa.Parameter:
		return c.V.fnKey(fr.fn) + ":" + x.Name()
	}
	return typeKey(v.Type())
}

func (c *Ctx) targetOfFn(f *ssa.Function, args []Val, bind []Val) callTarget {
	sig := f.Signature
	var names []string
	if len(f.Params) > 0 {
		for i, p := range f.Params {
			n := p.Name()
			if n == "" || n == "_" {
				n = fmt.Sprintf("arg%d", i)
			}
			names = append(names, n)
		}
	} else {
		names = sigParamNames(sig, true)
	}
	return callTarget{fn: f, key: c.V.fnKey(f), sig: sig, names: names, args: args, bind: bind}
}

func (c *Ctx) closureEnvArgs(cl *Closure, args []Val) []Val { return args }

func (c *Ctx) doCallVals(st *State, fr *Frame, cc *ssa.CallCommon, instr ssa.Instruction, fnv Val, args []Val, k func(*State, Val)) {
	pos := instr.Pos()
	if fr.fc != nil && fr.inlineOf == "" {
		k0 := k
		k = func(st2 *State, v Val) {
			c.afterCallClauses(st2, fr, cc, instr, v)
			k0(st2, v)
		}
	}
	if bi, ok := fnv.(*ssa.Builtin); ok {
		c.atCallClauses(st, fr, cc, instr, fnv, args)
		k(st, c.builtin(st, fr, bi, cc, args, pos))
		return
	}
	c.atCallClauses(st, fr, cc, instr, fnv, args)
	tgt := c.resolveCall(st, fr, cc, fnv, args)
	switch tgt.key {
	case "context.Context.Done":
		c.declare("(declare-fun ctxdone (Int) Int)")
		c.V.assumptions["A-CONTEXT: ctx.Done() yields only after cancellation/deadline, after which ctx.Err() != nil permanently; wall-clock time is not modelled"] = true
		k(st, mk(SInt, "(ctxdone %s)", c.valAsTerm(tgt.args[0]).S))
		return
	case "context.Context.Err":
		recv := c.valAsTerm(tgt.args[0])
		h := c.heapCur(st, ctxDoneKey, arrSort(SBool))
		e := c.fresh("ctxerr", SInt)
		st.assume(implies(sel(h, recv, SBool), not(eq(e, tZero))))
		nh := c.heapHavoc(st, ctxDoneKey, h.Sort)
		st.assume(eq(nh, ite(not(eq(e, tZero)), Term{S: fmt.Sprintf("(store %s %s true)", h.S, recv.S), Sort: h.Sort}, h)))
		k(st, e)
		return
	}
	tgt.origins = make([]*Addr, len(tgt.args))
	offA := len(tgt.args) - len(cc.Args)
	for i, a := range cc.Args {
		if o, ok := st.origin[a]; ok && offA+i >= 0 {
			tgt.origins[offA+i] = o
		}
	}
	fc := c.V.specs.Funcs[tgt.key]
	if fc != nil && !(fc.Inline && tgt.fn != nil && tgt.fn.Blocks != nil) {
		fc.Used = true
		res := c.applyContract(st, fr, fc, tgt, pos)
		k(st, res)
		return
	}
	if tgt.fn != nil && tgt.fn.Blocks != nil && c.V.canInline(tgt.fn, fr) {
		c.inlined[tgt.key] = true
		c.inlineCall(st, fr, tgt, fc, k)
		return
	}
	// no contract, not inlinable: havoc
	res := c.havocCall(st, fr, tgt, pos)
	k(st, res)
}

func (c *Ctx) inlineCall(st *State, fr *Frame, tgt callTarget, fc *FuncContract, k func(*State, Val)) {
	f := tgt.fn
	nf := &Frame{fn: f, fc: nil, depth: fr.depth + 1, loops: computeLoops(f), params: map[string]Val{}, entry: st.heapSnapshot(), inlineOf: tgt.key}
	if fr.inlineOf != "" {
		nf.inlineOf = fr.inlineOf + ">" + tgt.key
	}
	if fc != nil {
		nf.fc = fc
	}
	for i, p := range f.Params {
		st.regs[p] = tgt.args[i]
		nf.params[p.Name()] = tgt.args[i]
	}
	for i, fv := range f.FreeVars {
		st.regs[fv] = tgt.bind[i]
	}
	nf.onReturn = func(st2 *State, results []Val) {
		switch len(results) {
		case 0:
			k(st2, Unit{})
		case 1:
			k(st2, results[0])
		default:
			k(st2, Tuple(results))
		}
	}
	c.execBlock(st, nf, f.Blocks[0], nil)
}

func (c *Ctx) resultVals(st *State, sig *types.Signature, hint string) (Val, []Term) {
	n := sig.Results().Len()
	var ts []Term
	for i := 0; i < n; i++ {
		rt := sig.Results().At(i).Type()
		var t Term
		if _, ok := sortOf(rt); !ok {
			t = c.fresh(hint+"_res", SInt)
		} else {
			t = c.freshTyped(st, hint+"_res", rt)
		}
		if t.Sort == SInt && isStructPtr(rt) {
			c.assumeAlive(st, t)
		}
		ts = append(ts, t)
	}
	switch n {
	case 0:
		return Unit{}, nil
	case 1:
		return ts[0], ts
	}
	tu := make(Tuple, n)
	for i, t := range ts {
		tu[i] = t
	}
	return tu, ts
}

func (c *Ctx) havocCall(st *State, fr *Frame, tgt callTarget, pos token.Pos) Val {
	ws, all := c.V.writeSetOfTarget(c, tgt)
	note := "havoc-call: " + tgt.key
	if tgt.fn != nil && tgt.fn.Blocks == nil || tgt.fn == nil {
		note = "uncontracted-external: " + tgt.key + " (result unconstrained; assumed not to write repository state)"
	}
	c.trusted[note] = true
	if all {
		c.havocAll(st)
	} else {
		for _, key := range sortedKeys(ws) {
			c.havocKey(st, key)
		}
	}
	res, _ := c.resultVals(st, tgt.sig, shortName(tgt.key))
	return res
}

func (c *Ctx) havocKey(st *State, key string) {
	info, ok := c.V.heapKeys[key]
	if !ok && strings.HasPrefix(key, "G_") {
		if g, isG := c.V.specs.Ghosts[key[2:]]; isG {
			c.heapHavoc(st, key, c.V.sortOfTypeName(g.Type))
		}
		return
	}
	if !ok {
		switch key {
		case chLen, chVal:
			c.heapHavoc(st, key, arrSort(SInt))
		case chClosed, ctxDoneKey:
			c.heapHavoc(st, key, arrSort(SBool))
		case aliveKey:
			old := c.aliveCur(st)
			nw := c.heapHavoc(st, aliveKey, old.Sort)
			st.assume(mk(SBool, "(forall ((r Int)) (! (=> (select %s r) (select %s r)) :pattern ((select %s r))))", old.S, nw.S, nw.S))
		}
		return
	}
	if strings.HasPrefix(key, "MK_") || strings.HasPrefix(key, "MV_") || strings.HasPrefix(key, "G_") {
		c.heapHavoc(st, key, info.Sort)
	} else {
		c.heapHavoc(st, key, arrSort(info.Sort))
	}
}

func shortName(key string) string {
	if i := strings.LastIndex(key, "."); i >= 0 {
		return key[i+1:]
	}
	return key
}

// contracts at call sites ---------------------------------------------------------------------

func (c *Ctx) calleeEnv(st *State, old *State, fr *Frame, tgt callTarget) *Env {
	env := &Env{c: c, vars: map[string]Val{}, cur: st, old: old, fn: tgt.fn, callerFn: fr.fn}
	for i, n := range tgt.names {
		if i < len(tgt.args) {
			env.vars[n] = tgt.args[i]
		}
	}
	// positional aliases (receiver excluded)
	off := 0
	if tgt.sig.Recv() != nil || (len(tgt.names) > 0 && tgt.names[0] == "recv") {
		off = 1
		if len(tgt.args) > 0 {
			env.vars["recv"] = tgt.args[0]
		}
	}
	for i := off; i < len(tgt.args); i++ {
		env.vars[fmt.Sprintf("arg%d", i-off)] = tgt.args[i]
	}
	if tgt.fn != nil {
		for i, fv := range tgt.fn.FreeVars {
			if i < len(tgt.bind) {
				env.vars[fv.Name()] = tgt.bind[i]
			}
		}
		env.pkg = tgt.fn.Pkg
	}
	if env.pkg == nil {
		env.pkg = fr.fn.Pkg
	}
	if tgt.self != nil {
		env.vars["self"] = *tgt.self
	}
	if tgt.fn == nil && strings.HasPrefix(tgt.key, "dyn:") {
		// the contract of a function value held in a variable of the caller may mention the caller's variables
		env.frame = fr
	}
	return env
}

func (c *Ctx) bindLets(env *Env, fc *FuncContract) {
	for _, l := range fc.Lets {
		env.lets = append(env.lets, l)
	}
}

func (c *Ctx) checkPre(st *State, fr *Frame, fc *FuncContract, f *ssa.Function, args []Val, pos token.Pos, key string) {
	tgt := c.targetOfFn(f, args, nil)
	env := c.calleeEnv(st, st, fr, tgt)
	c.bindLets(env, fc)
	for _, cl := range fc.Clauses {
		if cl.Kind != "requires" || cl.Assumed {
			continue
		}
		env.goal = true
		g := env.evalBool(cl.E)
		c.oblige(st, fr, "pre", shortName(key), cl.Label, pos, g, nil, cl.Src)
	}
}

func (c *Ctx) applyContract(st *State, fr *Frame, fc *FuncContract, tgt callTarget, pos token.Pos) Val {
	switch {
	case fc.Trusted:
		c.trusted["assumed-contract (dependency): "+tgt.key] = true
	case fc.NoVerify:
		c.trusted["assumed-contract (repository function whose body is not verified): "+tgt.key] = true
	case fc.Abstract:
		c.trusted["assumed-contract (repository function: postconditions and frame are a ghost-level summary, its body is checked against its call-site clauses only): "+tgt.key] = true
	default:
		c.usedContracts[tgt.key+" (verified under "+strings.Join(fc.Props, ",")+")"] = true
	}
	env := c.calleeEnv(st, st, fr, tgt)
	c.bindLets(env, fc)
	for _, g := range fc.Ghosts {
		// ghost parameters at call sites are existential: unsupported, treat as fresh
		env.vars[g.Name] = c.fresh("ghost_"+g.Name, c.V.sortOfTypeName(g.Type))
	}
	for _, cl := range fc.Clauses {
		if cl.Kind != "requires" || cl.Assumed {
			continue
		}
		env.goal = true
		g := env.evalBool(cl.E)
		env.goal = false
		c.oblige(st, fr, "pre", shortName(tgt.key), cl.Label, pos, g, nil, cl.Src)
	}
	old := st.heapSnapshot()
	// havoc
	switch {
	case fc.Pure:
	case fc.HasMod:
		for _, m := range fc.Modifies {
			c.havocLoc(st, old, fr, env, m, tgt)
		}
	default:
		if tgt.fn != nil && tgt.fn.Blocks != nil {
			ws, all := c.V.writeSetOfTarget(c, tgt)
			if all {
				c.havocAll(st)
			} else {
				for _, key := range sortedKeys(ws) {
					c.havocKey(st, key)
				}
			}
		}
	}
	res, rts := c.resultVals(st, tgt.sig, shortName(tgt.key))
	env2 := c.calleeEnv(st, old, fr, tgt)
	c.bindLets(env2, fc)
	for k, v := range env.vars {
		if _, ok := env2.vars[k]; !ok {
			env2.vars[k] = v
		}
	}
	bindResults(env2, tgt.sig, rts)
	if fc.Defines != nil && len(rts) == 1 {
		// definitional name of the returned closure (its structure is checked where the constructor is verified)
		st.assume(eq(rts[0], env2.eval(*fc.Defines)))
		st.assume(not(eq(rts[0], tZero)))
	}
	npc := len(st.pc)
	for _, cl := range fc.Clauses {
		if cl.Kind != "ensures" {
			continue
		}
		if cl.Assumed {
			c.V.assumptions["assumed postcondition of "+tgt.key+" (used by callers, not proved against the body): "+cl.Src] = true
		}
		env2.assumeMode = true
		st.assume(env2.evalBool(cl.E))
	}
	// vacuity guard: the assumed postcondition must not contradict what is known at the call site
	site := fmt.Sprintf("%s@%d", tgt.key, int(pos))
	if !c.callCovered[site] && len(st.pc) > npc {
		c.callCovered[site] = true
		c.callCovers = append(c.callCovers, &CallCover{
			Callee: tgt.key, Where: c.posStr(pos),
			Before: &Query{Obl: &Obl{Fn: c.Key, Kind: "cover", Name: c.Key + "/cover-before-call"}, PC: append([]string(nil), st.pc[:npc]...), Goal: "false", NDecl: len(c.decls), Ctx: c},
			After:  &Query{Obl: &Obl{Fn: c.Key, Kind: "cover", Name: c.Key + "/cover-after-call"}, PC: append([]string(nil), st.pc...), Goal: "false", NDecl: len(c.decls), Ctx: c},
		})
	}
	return res
}

func bindResults(env *Env, sig *types.Signature, rts []Term) {
	for i, t := range rts {
		env.vars[fmt.Sprintf("result.%d", i)] = t
		if n := sig.Results().At(i).Name(); n != "" && n != "_" {
			if _, clash := env.vars[n]; !clash {
				env.vars[n] = t
			}
		}
	}
	if len(rts) == 1 {
		env.vars["result"] = rts[0]
	}
}

// havocLoc havocs one `modifies` location of a callee contract in the caller's state
func (c *Ctx) havocLoc(st *State, old *State, fr *Frame, env *Env, m ModLoc, tgt callTarget) {
	switch e := m.E.(type) {
	case EField:
		oenv := *env
		oenv.cur = old
		base := oenv.eval(e.X)
		fis, ok := c.resolveFieldChain(base.GoT, e.Name)
		if !ok {
			unsupp("modifies: no field %s on %v", e.Name, base.GoT)
		}
		ref := base
		for _, fi := range fis[:len(fis)-1] {
			ref = c.loadField(old, ref, fi)
		}
		fi := fis[len(fis)-1]
		if isRepoStruct(fi.GoT) {
			c.havocSubObject(st, c.loadField(old, ref, fi), fi.GoT, 0)
			return
		}
		h := c.heapCur(st, fi.Key, arrSort(fi.Sort))
		fv := c.fresh("mod_"+fi.Key, fi.Sort)
		// a nil reference has no fields: nothing is modified then
		if ref.S == "0" {
			return
		}
		nh := c.heapHavoc(st, fi.Key, h.Sort)
		st.assume(eq(nh, ite(eq(ref, tZero), h, sto(h, ref, fv))))
	case EIdent:
		if e.Name == "everything" {
			c.havocAll(st)
			return
		}
		if g, ok := c.V.specs.Ghosts[e.Name]; ok {
			c.heapHavoc(st, "G_"+g.Name, c.V.sortOfTypeName(g.Type))
			return
		}
		// a captured variable of a closure
		if v, ok := env.vars[e.Name]; ok {
			if a, isA := v.(*Addr); isA && a.Kind == aCell {
				st.cells[a.Key] = c.freshTyped(st, "mod_"+e.Name, a.Elem)
				return
			}
		}
		unsupp("modifies: unknown location %s", e.Name)
	case ECall:
		switch e.Fn {
		case "all":
			// all(T.f): whole field map
			key := c.V.heapKeyByName(c, env, e.Args[0])
			c.havocKey(st, key)
		case "elems":
			// contents of a slice argument: the variable it was loaded from gets unknown contents of the same length
			id, ok := e.Args[0].(EIdent)
			if !ok {
				unsupp("modifies elems(x): x must be a parameter name")
			}
			done := false
			for i, n := range tgt.names {
				if n != id.Name || i >= len(tgt.origins) {
					continue
				}
				o := tgt.origins[i]
				if o == nil {
					unsupp("modifies elems(%s): argument is not held in a variable", id.Name)
				}
				cur := c.load(st, fr, o).(Term)
				nv := c.fresh("elems_"+id.Name, cur.Sort)
				nv.GoT = cur.GoT
				st.assume(eq(lenOf(nv), lenOf(cur)))
				if st.fresh[cur.S] {
					st.fresh[nv.S] = true
				}
				c.store(st, fr, o, nv, token.NoPos)
				env.vars["new_"+id.Name] = nv
				done = true
			}
			if !done {
				unsupp("modifies elems(%s): no such parameter", id.Name)
			}
		case "keys", "mapof":
			// only the named map changes: the other maps of the same type keep their keys and values
			oenv := *env
			oenv.cur = old
			base := oenv.eval(e.Args[0])
			mi := c.mapInfo(base.GoT)
			hk := c.heapCur(st, mi.KeyHas, mi.HasSort)
			hv := c.heapCur(st, mi.KeyVal, mi.ValSort)
			nk := c.heapHavoc(st, mi.KeyHas, mi.HasSort)
			nv := c.heapHavoc(st, mi.KeyVal, mi.ValSort)
			fk := c.fresh("mod_"+mi.KeyHas, Sort(fmt.Sprintf("(Array %s Bool)", mi.K)))
			fv := c.fresh("mod_"+mi.KeyVal, Sort(fmt.Sprintf("(Array %s %s)", mi.K, mi.V)))
			st.assume(eq(nk, sto(hk, base, fk)))
			st.assume(eq(nv, sto(hv, base, fv)))
		case "alloc":
			c.havocKey(st, aliveKey)
		case "chan":
			// typestate of one channel (its token count / value / closed flag)
			x := env.eval(e.Args[0])
			oenv := *env
			oenv.cur = old
			x = oenv.eval(e.Args[0])
			for _, k := range []string{chLen, chVal} {
				h := c.heapCur(st, k, arrSort(SInt))
				st.heap[k] = sto(h, x, c.fresh("mod_"+k, SInt))
			}
			h := c.heapCur(st, chClosed, arrSort(SBool))
			st.heap[chClosed] = sto(h, x, c.fresh("mod_"+chClosed, SBool))
		case "chans":
			c.havocKey(st, chLen)
			c.havocKey(st, chVal)
			c.havocKey(st, chClosed)
		case "object":
			// every field of the object an interface value (or pointer) refers to
			x := env.eval(e.Args[0])
			c.havocObject(st, x)
		default:
			unsupp("modifies: unknown location form %s", m.Src)
		}
	default:
		unsupp("modifies: unsupported location %s", m.Src)
	}
}

// at-call clauses of the function being verified -------------------------------------------------

func (c *Ctx) atCallClauses(st *State, fr *Frame, cc *ssa.CallCommon, instr ssa.Instruction, fnv Val, args []Val) {
	if fr.fc == nil {
		return
	}
	site, ok := c.V.callSites(fr.fn)[instr]
	if !ok {
		return
	}
	for _, cl := range fr.fc.Clauses {
		if cl.Kind != "atcall" {
			continue
		}
		matched := false
		for _, s := range site {
			if cl.Site == s {
				matched = true
			}
			// NAME#* : every call of NAME
			if strings.HasSuffix(cl.Site, "#*") && strings.HasPrefix(s, strings.TrimSuffix(cl.Site, "*")) {
				matched = true
			}
		}
		if !matched {
			continue
		}
		env := c.envFor(st, fr, fr.entry)
		off := 0
		if cc.IsInvoke() {
			env.vars["recv"] = fnv
		} else if cc.Signature().Recv() != nil && len(args) > 0 {
			env.vars["recv"] = args[0]
			off = 1
		}
		for i := off; i < len(args); i++ {
			env.vars[fmt.Sprintf("arg%d", i-off)] = args[i]
		}
		env.goal = true
		var g Term
		src := cl.Src
		func() {
			// a required clause that can no longer be stated (it names something the function does not have any more)
			// cannot hold: the obligation fails instead of leaving the function undecided
			defer func() {
				if r := recover(); r != nil {
					if ee, ok := r.(evalErr); ok && cl.Required {
						g = tFalse
						src += "  -- VIOLATED: the clause cannot be stated on this code: " + ee.msg
						return
					}
					panic(r)
				}
			}()
			g = env.evalBool(cl.E)
		}()
		c.oblige(st, fr, "atcall", cl.Site, cl.Label, instr.Pos(), g, cl.Props, src)
		if g.S != "false" && c.ownClause(fr, cl.Props) {
			// what was proved element by element (===) is from here on known as an equality of the sequences themselves
			// (sequences are extensional, A-SEQ), so a later clause may use it under an uninterpreted function
			func() {
				defer func() { recover() }()
				env.goal = false
				st.assume(env.evalBool(cl.E))
			}()
		}
	}
}

// `after call X set G = E`: ghost assignment right after the call returned (E may mention result / result.N)
func (c *Ctx) afterCallClauses(st *State, fr *Frame, cc *ssa.CallCommon, instr ssa.Instruction, v Val) {
	site, ok := c.V.callSites(fr.fn)[instr]
	if !ok {
		return
	}
	for _, cl := range fr.fc.Clauses {
		if cl.Kind != "aftercallset" {
			continue
		}
		matched := false
		for _, s := range site {
			if cl.Site == s || (strings.HasSuffix(cl.Site, "#*") && strings.HasPrefix(s, strings.TrimSuffix(cl.Site, "*"))) {
				matched = true
			}
		}
		if !matched {
			continue
		}
		g, ok := c.V.specs.Ghosts[cl.Label]
		if !ok {
			evalFail("after call set: unknown ghost variable %s", cl.Label)
		}
		env := c.envFor(st, fr, fr.entry)
		var rts []Term
		switch x := v.(type) {
		case Tuple:
			for _, e := range x {
				rts = append(rts, c.valAsTerm(e))
			}
		case Unit:
		default:
			rts = append(rts, c.valAsTerm(v))
		}
		bindResults(env, cc.Signature(), rts)
		val := env.eval(cl.E)
		want := c.V.sortOfTypeName(g.Type)
		if val.Sort != want {
			evalFail("after call set %s: sort %s, want %s", cl.Label, val.Sort, want)
		}
		st.heap["G_"+g.Name] = val
	}
}

// builtins --------------------------------------------------------------------------------------------

func (c *Ctx) builtin(st *State, fr *Frame, bi *ssa.Builtin, cc *ssa.CallCommon, args []Val, pos token.Pos) Val {
	switch bi.Name() {
	case "len":
		t := args[0].(Term)
		if t.Sort.isSeq() {
			return lenOf(t)
		}
		if _, isMap := cc.Args[0].Type().Underlying().(*types.Map); isMap {
			c.declare("(declare-fun maplen (Int) Int)")
			c.declare("(assert (forall ((m Int)) (! (>= (maplen m) 0) :pattern ((maplen m)))))")
			return mk(SInt, "(maplen %s)", t.S)
		}
		c.declare("(declare-fun chanlen (Int) Int)")
		return mk(SInt, "(chanlen %s)", t.S)
	case "cap":
		t := args[0].(Term)
		if t.Sort.isSeq() {
			return capOf(t)
		}
		return c.fresh("cap", SInt)
	case "append":
		a := args[0].(Term)
		b := args[1].(Term)
		if a.Sort != b.Sort {
			if b.Sort == SInt && b.S == "0" {
				b = emptyOf(a.Sort)
			} else if a.Sort == SBytes || b.Sort == SBytes {
				// append([]byte, string...)
			} else {
				unsupp("append sorts %s %s", a.Sort, b.Sort)
			}
		}
		c.V.assumptions["A-APPEND: append returns a new sequence value (old elements followed by the new ones); aliasing through spare capacity is not modelled"] = true
		r := catOf(a, b)
		r.GoT = cc.Args[0].Type()
		return r
	case "copy":
		// copy(dst, src): dst keeps its length; its first min(len) elements become those of src
		dst, src := args[0].(Term), args[1].(Term)
		o, ok := st.origin[cc.Args[0]]
		if !ok || !st.fresh[dst.S] {
			unsupp("copy into a slice not allocated in this function (aliasing not modelled)")
		}
		n := ite(mk(SBool, "(<= %s %s)", lenOf(dst).S, lenOf(src).S), lenOf(dst), lenOf(src))
		nv := c.fresh("copied", dst.Sort)
		nv.GoT = dst.GoT
		st.assume(eq(lenOf(nv), lenOf(dst)))
		at := atOf(nv, Term{S: "t"}).S
		st.assume(mk(SBool, "(forall ((t Int)) (! (=> (and (<= 0 t) (< t %s)) (= %s %s)) :pattern (%s)))", n.S, at, atOf(src, Term{S: "t"}).S, at))
		st.assume(mk(SBool, "(forall ((t Int)) (! (=> (and (<= %s t) (< t %s)) (= %s %s)) :pattern (%s)))", n.S, lenOf(dst).S, at, atOf(dst, Term{S: "t"}).S, at))
		st.fresh[nv.S] = true
		c.store(st, fr, o, nv, pos)
		return n
	case "close":
		c.closeChan(st, fr, args[0].(Term), pos)
		return Unit{}
	case "delete":
		c.mapDelete(st, fr, cc.Args[0].Type(), args[0].(Term), args[1].(Term))
		return Unit{}
	case "panic":
		mp := fr.fc != nil && fr.fc.MayPanic
		if !mp {
			c.oblige(st, fr, "panic", "explicit", "", pos, tFalse, nil, "")
		}
		st.assume(tFalse)
		return Unit{}
	case "print", "println":
		return Unit{}
	case "recover":
		return tZero
	case "ssa:wrapnilchk":
		return args[0]
	case "ssa:deferstack":
		return tZero
	case "min", "max":
		a, b := args[0].(Term), args[1].(Term)
		if bi.Name() == "min" {
			return ite(mk(SBool, "(<= %s %s)", a.S, b.S), a, b)
		}
		return ite(mk(SBool, "(>= %s %s)", a.S, b.S), a, b)
	}
	unsupp("builtin %s", bi.Name())
	return nil
}

// havocObject forgets every field of the struct x points to. x is a pointer term with a static Go type, or
// an interface value built in this function (box typeid ref); anything else forgets the whole heap.
func (c *Ctx) havocObject(st *State, x Term) {
	var t types.Type
	ref := x
	if x.GoT != nil && isStructPtr(x.GoT) {
		t = x.GoT
	} else if strings.HasPrefix(x.S, "(box ") {
		var id int
		rest := ""
		if n, _ := fmt.Sscanf(x.S, "(box %d ", &id); n == 1 {
			rest = strings.TrimSuffix(strings.SplitN(x.S, " ", 3)[2], ")")
			t = c.V.typeByID(id)
			ref = Term{S: rest, Sort: SInt}
		}
	}
	if t == nil || !isStructPtr(t) {
		// an object of unknown dynamic type: any field map may change - but ghost variables are not fields of any object
		ghosts := map[string]Term{}
		for k := range c.V.specs.Ghosts {
			key := "G_" + k
			ghosts[key] = c.heapCur(st, key, c.V.sortOfTypeName(c.V.specs.Ghosts[k].Type))
		}
		c.havocAll(st)
		for k, v := range ghosts {
			st.heap[k] = v
		}
		return
	}
	s, owner := structOf(t)
	for i := 0; i < s.NumFields(); i++ {
		fi := c.fieldByIndex(owner, i)
		if isRepoStruct(fi.GoT) {
			continue
		}
		h := c.heapCur(st, fi.Key, arrSort(fi.Sort))
		st.heap[fi.Key] = sto(h, ref, c.fresh("obj_"+fi.Key, fi.Sort))
	}
}

func (c *Ctx) havocSubObject(st *State, ref Term, t types.Type, depth int) {
	s, owner := structOf(t)
	if s == nil || depth > 3 {
		return
	}
	for i := 0; i < s.NumFields(); i++ {
		fi := c.fieldByIndex(owner, i)
		if isRepoStruct(fi.GoT) {
			c.havocSubObject(st, c.loadField(st, ref, fi), fi.GoT, depth+1)
			continue
		}
		h := c.heapCur(st, fi.Key, arrSort(fi.Sort))
		st.heap[fi.Key] = sto(h, ref, c.fresh("mod_"+fi.Key, fi.Sort))
	}
}
