package main

// Data obligations over embedded assets.
//
//   //@ asset [Cnn] platforms/*.yaml except platforms/example.yaml
//   //@   ensures #label E(doc)
//
// The files named by go:embed directives are constants of the program. Each matching file of the CURRENT tree is
// parsed (yaml.v3 node tree) and described to the solver as ground facts over a small document theory (spec
// functions declared in spec/stdlib.spec):
//     ykind(n)   0 null/absent, 1 string, 2 int, 3 float, 4 bool, 5 sequence, 6 mapping
//     ystr(n) yint(n) ybool(n)   scalar values;  ylen(n)  number of items / pairs
//     yitem(n,k)  k-th element (sequence) or k-th value (mapping);  ykey(n,k)  k-th key (mapping)
//     yget(n,key) child of a mapping by key, 0 when absent (closed world: one axiom per mapping)
//     ydepth(n)   for a mapping `m` whose values have a `previous-priv` link: a witness of the link depth of each
//                 value (computed here by following the links; only ever helps a proof, cannot make a false one true)
// Each `ensures` clause is one obligation per file, evaluated with `doc` = root node and `docname` = file base name.
// Assumption A-YAML: yaml.v3 decodes this node tree into the Go structures according to the struct tags.

import (
	"fmt"
	"os"
	"path/filepath"
	"sort"
	"strconv"
	"strings"

	"regexp/syntax"

	"gopkg.in/yaml.v3"
)

// lineAnchored: the text, read as a regular expression, can only match at the start of a line or of the text: every
// top-level alternative begins with ^ or \A (computed from regexp/syntax's parse tree; a text that does not parse is
// not anchored).
func lineAnchored(s string) bool {
	re, err := syntax.Parse(s, syntax.Perl)
	if err != nil {
		return false
	}
	var anch func(r *syntax.Regexp) bool
	anch = func(r *syntax.Regexp) bool {
		switch r.Op {
		case syntax.OpBeginLine, syntax.OpBeginText:
			return true
		case syntax.OpCapture:
			return anch(r.Sub[0])
		case syntax.OpConcat:
			for _, x := range r.Sub {
				if x.Op == syntax.OpEmptyMatch {
					continue
				}
				return anch(x)
			}
			return false
		case syntax.OpAlternate:
			for _, x := range r.Sub {
				if !anch(x) {
					return false
				}
			}
			return len(r.Sub) > 0
		}
		return false
	}
	return anch(re)
}

type AssetSpec struct {
	Glob   string
	Except []string
}

func parseAssetHead(rest string) (*AssetSpec, []string, error) {
	c := &Clause{}
	rest = parseTags(rest, c)
	f := strings.Fields(rest)
	if len(f) == 0 {
		return nil, nil, fmt.Errorf("asset [Cnn] GLOB [except PATH ...]")
	}
	as := &AssetSpec{Glob: f[0]}
	if len(f) > 1 {
		if f[1] != "except" {
			return nil, nil, fmt.Errorf("asset [Cnn] GLOB [except PATH ...]")
		}
		as.Except = f[2:]
	}
	return as, c.Props, nil
}

type assetDoc struct {
	v     *Verifier
	facts []string
	next  int
}

func (d *assetDoc) fact(f string, a ...interface{}) { d.facts = append(d.facts, fmt.Sprintf(f, a...)) }

func (d *assetDoc) lit(s string) string { return d.v.lits.Bytes(s).S }

func (d *assetDoc) node(n *yaml.Node) int {
	for n.Kind == yaml.AliasNode {
		n = n.Alias
	}
	if n.Kind == yaml.DocumentNode {
		if len(n.Content) == 0 {
			return 0
		}
		return d.node(n.Content[0])
	}
	d.next++
	id := d.next
	switch n.Kind {
	case yaml.ScalarNode:
		switch n.ShortTag() {
		case "!!null":
			d.fact("(= (sp_ykind %d) 0)", id)
		case "!!int":
			d.fact("(= (sp_ykind %d) 2)", id)
			if v, err := strconv.ParseInt(n.Value, 0, 64); err == nil {
				d.fact("(= (sp_yint %d) %s)", id, mkInt(v).S)
			}
		case "!!float":
			d.fact("(= (sp_ykind %d) 3)", id)
		case "!!bool":
			d.fact("(= (sp_ykind %d) 4)", id)
			var b bool
			if n.Decode(&b) == nil {
				d.fact("(= (sp_ybool %d) %v)", id, b)
			}
		default:
			d.fact("(= (sp_ykind %d) 1)", id)
			d.fact("(= (sp_ystr %d) %s)", id, d.lit(n.Value))
			d.fact("(= (sp_yanch %d) %v)", id, lineAnchored(n.Value))
		}
	case yaml.SequenceNode:
		d.fact("(= (sp_ykind %d) 5)", id)
		d.fact("(= (sp_ylen %d) %d)", id, len(n.Content))
		for k, c := range n.Content {
			d.fact("(= (sp_yitem %d %d) %d)", id, k, d.node(c))
		}
	case yaml.MappingNode:
		d.fact("(= (sp_ykind %d) 6)", id)
		d.fact("(= (sp_ylen %d) %d)", id, len(n.Content)/2)
		var keys []string
		kids := map[string]*yaml.Node{}
		for k := 0; k+1 < len(n.Content); k += 2 {
			key := n.Content[k].Value
			child := d.node(n.Content[k+1])
			d.fact("(= (sp_ykey %d %d) %s)", id, k/2, d.lit(key))
			d.fact("(= (sp_yitem %d %d) %d)", id, k/2, child)
			d.fact("(= (sp_yget %d %s) %d)", id, d.lit(key), child)
			d.fact("(= (sp_ypos %d %s) %d)", id, d.lit(key), k/2)
			keys = append(keys, key)
			kids[key] = n.Content[k+1]
		}
		var neq []string
		for _, k := range keys {
			neq = append(neq, fmt.Sprintf("(not (= s %s))", d.lit(k)))
		}
		cond := "true"
		if len(neq) == 1 {
			cond = neq[0]
		} else if len(neq) > 1 {
			cond = "(and " + strings.Join(neq, " ") + ")"
		}
		d.fact("(forall ((s Bytes)) (! (=> %s (= (sp_yget %d s) 0)) :pattern ((sp_yget %d s))))", cond, id, id)
		// link-depth witness for mappings of records with a `previous-priv` field
		depth := map[string]int{}
		var walk func(k string, seen map[string]bool) (int, bool)
		walk = func(k string, seen map[string]bool) (int, bool) {
			if dd, ok := depth[k]; ok {
				return dd, true
			}
			rec, ok := kids[k]
			if !ok || rec.Kind != yaml.MappingNode || seen[k] {
				return 0, false
			}
			seen[k] = true
			prev := ""
			has := false
			for i := 0; i+1 < len(rec.Content); i += 2 {
				if rec.Content[i].Value == "previous-priv" {
					has = true
					if rec.Content[i+1].ShortTag() != "!!null" {
						prev = rec.Content[i+1].Value
					}
				}
			}
			if !has {
				return 0, false
			}
			if prev == "" {
				depth[k] = 0
				return 0, true
			}
			pd, ok := walk(prev, seen)
			if !ok {
				return 0, false
			}
			depth[k] = pd + 1
			return pd + 1, true
		}
		for k2, key := range keys {
			if dd, ok := walk(key, map[string]bool{}); ok {
				d.fact("(= (sp_ydepth (sp_yitem %d %d)) %d)", id, k2, dd)
			}
		}
	default:
		d.fact("(= (sp_ykind %d) 0)", id)
	}
	return id
}

// assetFiles: embedded files (relative to their package directory) matching the spec, with absolute paths
func (v *Verifier) assetFiles(as *AssetSpec) (rel []string, abs map[string]string) {
	abs = map[string]string{}
	for _, f := range v.embedded {
		ok, _ := filepath.Match(as.Glob, f)
		if !ok {
			continue
		}
		skip := false
		for _, e := range as.Except {
			if e == f {
				skip = true
			}
		}
		if skip {
			continue
		}
		rel = append(rel, f)
		abs[f] = v.embeddedAbs[f]
	}
	sort.Strings(rel)
	return
}

func (v *Verifier) VerifyAsset(fc *FuncContract) []*FuncResult {
	var out []*FuncResult
	files, abs := v.assetFiles(fc.Asset)
	if len(files) == 0 {
		r := &FuncResult{Key: fc.Key}
		r.Undecided = append(r.Undecided, "no embedded file matches "+fc.Asset.Glob)
		return []*FuncResult{r}
	}
	for _, f := range files {
		c := &Ctx{V: v, FC: fc, Key: "asset:" + f, declSet: map[string]bool{}, obls: map[string]*Obl{}, maxPaths: 10, trusted: map[string]bool{}, inlined: map[string]bool{}, usedContracts: map[string]bool{}, callCovered: map[string]bool{}, assetFile: trimRepo(abs[f], v.repo)}
		res := &FuncResult{Key: c.Key, Ctx: c}
		v.prepareAxioms(c)
		func() {
			defer func() {
				if r := recover(); r != nil {
					switch e := r.(type) {
					case unsupported:
						res.Undecided = append(res.Undecided, "unsupported: "+e.msg)
					case evalErr:
						res.Undecided = append(res.Undecided, "contract error: "+e.msg)
					default:
						panic(r)
					}
				}
				c.nameObligations()
				res.Obls = c.oblOrder
			}()
			data, err := os.ReadFile(abs[f])
			if err != nil {
				res.Undecided = append(res.Undecided, err.Error())
				return
			}
			var root yaml.Node
			if err := yaml.Unmarshal(data, &root); err != nil {
				// a file that does not parse fails every clause
				st := newState()
				for _, cl := range fc.Clauses {
					c.oblige(st, nil, "asset", "", cl.Label, 0, tFalse, cl.Props, cl.Src+"  -- the file does not parse: "+err.Error())
				}
				return
			}
			d := &assetDoc{v: v}
			rootID := d.node(&root)
			base := newState()
			base.assume(mk(SBool, "(= (sp_ykind 0) 0)"))
			base.assume(mk(SBool, "(forall ((s Bytes)) (! (= (sp_yget 0 s) 0) :pattern ((sp_yget 0 s))))"))
			for _, ft := range d.facts {
				base.assume(mk(SBool, "%s", ft))
			}
			name := strings.TrimSuffix(filepath.Base(f), filepath.Ext(f))
			for _, cl := range fc.Clauses {
				if cl.Kind != "ensures" {
					continue
				}
				st := newState()
				st.pc = append(st.pc, base.pc...)
				env := &Env{c: c, vars: map[string]Val{}, cur: st, old: st, lets: fc.Lets}
				env.vars["doc"] = mkInt(int64(rootID))
				env.vars["docname"] = v.lits.Bytes(name)
				env.goal = true
				c.curClause = cl
				c.oblige(st, nil, "asset", "", cl.Label, 0, env.evalBool(cl.E), cl.Props, cl.Src)
				c.curClause = nil
			}
			// vacuity guard: the facts themselves must be satisfiable
			cov := &Obl{Fn: c.Key, Kind: "cover", Name: c.Key + "/cover"}
			res.Covers = append(res.Covers, &Query{Obl: cov, PC: append([]string(nil), base.pc...), Goal: "false", NDecl: len(c.decls), Trace: "facts", Ctx: c})
		}()
		out = append(out, res)
	}
	return out
}
