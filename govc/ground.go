package main

// Refutation mode: a failed query is re-asked in a weaker, quantifier-free theory to obtain a model.
//
//   - the quantified prelude and spec axioms are dropped and replaced by their instances on the ground terms
//     of the query (three rounds);
//   - quantifiers inside the path condition / goal are removed by polarity: universally quantified
//     hypotheses are instantiated on the integer index terms that occur, existentials are skolemised.
//
// The result is QF_UFLIA + arrays. A `sat` answer is only a candidate: it is believed only if the input
// it describes makes the real code violate the obligation (replay).

import (
	"fmt"
	"sort"
	"strings"
)

type sx struct {
	atom string
	list []*sx
}

func (s *sx) isAtom() bool { return s.list == nil && s.atom != "" }

func (s *sx) String() string {
	if s.list == nil {
		return s.atom
	}
	var b strings.Builder
	b.WriteByte('(')
	for i, c := range s.list {
		if i > 0 {
			b.WriteByte(' ')
		}
		b.WriteString(c.String())
	}
	b.WriteByte(')')
	return b.String()
}

func parseSexprs(src string) []*sx {
	var out []*sx
	var stack []*sx
	i := 0
	push := func(n *sx) {
		if len(stack) == 0 {
			out = append(out, n)
		} else {
			top := stack[len(stack)-1]
			top.list = append(top.list, n)
		}
	}
	for i < len(src) {
		c := src[i]
		switch {
		case c == ';':
			for i < len(src) && src[i] != '\n' {
				i++
			}
		case c == ' ' || c == '\n' || c == '\t' || c == '\r':
			i++
		case c == '(':
			n := &sx{list: []*sx{}}
			push(n)
			stack = append(stack, n)
			i++
		case c == ')':
			if len(stack) > 0 {
				stack = stack[:len(stack)-1]
			}
			i++
		case c == '|':
			j := i + 1
			for j < len(src) && src[j] != '|' {
				j++
			}
			push(&sx{atom: src[i : j+1]})
			i = j + 1
		case c == '"':
			j := i + 1
			for j < len(src) && src[j] != '"' {
				j++
			}
			push(&sx{atom: src[i : j+1]})
			i = j + 1
		default:
			j := i
			for j < len(src) && !strings.ContainsRune(" \n\t\r()", rune(src[j])) {
				j++
			}
			push(&sx{atom: src[i:j]})
			i = j
		}
	}
	return out
}

func sxList(items ...*sx) *sx { return &sx{list: items} }
func sxAtom(a string) *sx     { return &sx{atom: a} }

func (s *sx) head() string {
	if s.list != nil && len(s.list) > 0 && s.list[0].isAtom() {
		return s.list[0].atom
	}
	return ""
}

func subst(s *sx, m map[string]*sx) *sx {
	if s.list == nil {
		if r, ok := m[s.atom]; ok {
			return r
		}
		return s
	}
	n := &sx{list: make([]*sx, len(s.list))}
	for i, c := range s.list {
		n.list[i] = subst(c, m)
	}
	return n
}

type grounder struct {
	decls     []string
	nsk       int
	idxTerms  []string // candidate integer instantiation terms
	idxSeen   map[string]bool
	extraDecl []string
	sorts     map[string]string // constant name -> sort
}

func (g *grounder) skolem(sort string) string {
	g.nsk++
	n := fmt.Sprintf("sk!%d", g.nsk)
	g.extraDecl = append(g.extraDecl, fmt.Sprintf("(declare-const %s %s)", n, sort))
	if g.sorts != nil {
		g.sorts[n] = sort
	}
	return n
}

// elimQ removes quantifiers by polarity. pos=true: the formula is asserted.
func (g *grounder) elimQ(s *sx, pos bool) *sx {
	if s.list == nil {
		return s
	}
	h := s.head()
	switch h {
	case "!":
		return g.elimQ(s.list[1], pos)
	case "not":
		return sxList(sxAtom("not"), g.elimQ(s.list[1], !pos))
	case "and", "or":
		n := &sx{list: []*sx{s.list[0]}}
		for _, c := range s.list[1:] {
			n.list = append(n.list, g.elimQ(c, pos))
		}
		return n
	case "=>":
		if len(s.list) == 3 {
			return sxList(sxAtom("=>"), g.elimQ(s.list[1], !pos), g.elimQ(s.list[2], pos))
		}
	case "ite":
		if len(s.list) == 4 {
			// condition occurs in both polarities: quantifiers there are dropped conservatively
			return sxList(sxAtom("ite"), g.dropQ(s.list[1]), g.elimQ(s.list[2], pos), g.elimQ(s.list[3], pos))
		}
	case "=":
		// boolean equality with quantifiers inside: drop
		return g.dropQ(s)
	case "forall", "exists":
		universal := (h == "forall") == pos
		binders := s.list[1].list
		body := s.list[2]
		if universal {
			// instantiate integer binders on candidate terms; anything else cannot be instantiated: drop (true/false)
			for _, b := range binders {
				if b.list[1].atom != "Int" {
					if pos {
						return sxAtom("true")
					}
					return sxAtom("false")
				}
			}
			cands := g.idxTerms
			if len(cands) > 12 {
				cands = cands[:12]
			}
			if len(binders) > 2 {
				if pos {
					return sxAtom("true")
				}
				return sxAtom("false")
			}
			var insts []*sx
			var rec func(k int, m map[string]*sx)
			rec = func(k int, m map[string]*sx) {
				if k == len(binders) {
					mm := map[string]*sx{}
					for a, b := range m {
						mm[a] = b
					}
					insts = append(insts, g.elimQ(subst(body, mm), pos))
					return
				}
				for _, ct := range cands {
					m[binders[k].list[0].atom] = parseSexprs(ct)[0]
					rec(k+1, m)
				}
			}
			rec(0, map[string]*sx{})
			if len(insts) == 0 {
				if pos {
					return sxAtom("true")
				}
				return sxAtom("false")
			}
			op := "and"
			if !pos {
				op = "or"
			}
			return &sx{list: append([]*sx{sxAtom(op)}, insts...)}
		}
		// existential in effect: skolemise
		m := map[string]*sx{}
		for _, b := range binders {
			m[b.list[0].atom] = sxAtom(g.skolem(b.list[1].String()))
		}
		return g.elimQ(subst(body, m), pos)
	}
	// other boolean connectives / atoms: no quantifier expected inside terms
	return g.dropQ(s)
}

// dropQ replaces quantified subformulas in positions of unknown polarity by fresh boolean constants
func (g *grounder) dropQ(s *sx) *sx {
	if s.list == nil {
		return s
	}
	h := s.head()
	if h == "forall" || h == "exists" {
		return sxAtom(g.skolem("Bool"))
	}
	if h == "!" {
		return g.dropQ(s.list[1])
	}
	n := &sx{list: make([]*sx, len(s.list))}
	for i, c := range s.list {
		n.list[i] = g.dropQ(c)
	}
	return n
}

func collectTerms(s *sx, f func(*sx)) {
	if s.list == nil {
		return
	}
	f(s)
	for _, c := range s.list {
		collectTerms(c, f)
	}
}

var seqSfx = map[string][2]string{"Y": {"Bytes", "Int"}, "B": {"SeqB", "Bytes"}, "I": {"SeqI", "Int"}}

// theoryInstances returns instances of the prelude axioms for the ground terms in fs
func (g *grounder) theoryInstances(fs []*sx, seen map[string]bool) []string {
	var out []string
	add := func(f string) {
		if !seen[f] {
			seen[f] = true
			out = append(out, f)
		}
	}
	for _, f := range fs {
		collectTerms(f, func(t *sx) {
			h := t.head()
			if len(h) < 3 {
				return
			}
			us := strings.LastIndex(h, "_")
			if us < 0 {
				switch h {
				case "box":
					if len(t.list) == 3 {
						add(fmt.Sprintf("(and (= (dyntype %s) %s) (= (payload %s) %s) (not (= %s 0)))", t, t.list[1], t, t.list[2], t))
					}
				case "wraps":
					if len(t.list) == 3 {
						add(fmt.Sprintf("(=> %s (errIs %s %s))", t, t.list[1], t.list[2]))
					}
				case "errIs":
					if len(t.list) == 3 {
						add(fmt.Sprintf("(errIs %s %s)", t.list[1], t.list[1]))
					}
				}
				return
			}
			op, x := h[:us], h[us+1:]
			if _, ok := seqSfx[x]; !ok {
				if op == "inj" || op == "prj" {
					x2 := x
					if op == "inj" && len(t.list) == 2 {
						add(fmt.Sprintf("(= (prj_%s %s) %s)", x2, t, t.list[1]))
					}
				}
				return
			}
			switch op {
			case "len":
				if len(t.list) == 2 {
					add(fmt.Sprintf("(>= %s 0)", t))
					add(fmt.Sprintf("(=> (= %s 0) (= %s empty_%s))", t, t.list[1], x))
				}
			case "cap":
				if len(t.list) == 2 {
					add(fmt.Sprintf("(>= %s (len_%s %s))", t, x, t.list[1]))
				}
			case "cat":
				if len(t.list) == 3 {
					a, b := t.list[1], t.list[2]
					add(fmt.Sprintf("(= (len_%s %s) (+ (len_%s %s) (len_%s %s)))", x, t, x, a, x, b))
					add(fmt.Sprintf("(>= (len_%s %s) 0)", x, a))
					add(fmt.Sprintf("(>= (len_%s %s) 0)", x, b))
				}
			case "slice":
				if len(t.list) == 4 {
					a, lo, hi := t.list[1], t.list[2], t.list[3]
					add(fmt.Sprintf("(=> (and (<= 0 %s) (<= %s %s)) (= (len_%s %s) (- %s %s)))", lo, lo, hi, x, t, hi, lo))
					add(fmt.Sprintf("(>= (len_%s %s) 0)", x, t))
					add(fmt.Sprintf("(=> (and (= %s 0) (= %s (len_%s %s))) (= %s %s))", lo, hi, x, a, t, a))
				}
			case "single":
				if len(t.list) == 2 {
					add(fmt.Sprintf("(and (= (len_%s %s) 1) (= (at_%s %s 0) %s))", x, t, x, t, t.list[1]))
				}
			case "upd":
				if len(t.list) == 4 {
					add(fmt.Sprintf("(= (len_%s %s) (len_%s %s))", x, t, x, t.list[1]))
				}
			case "at":
				if len(t.list) == 3 {
					s, i := t.list[1], t.list[2]
					switch s.head() {
					case "cat_" + x:
						a, b := s.list[1], s.list[2]
						add(fmt.Sprintf("(=> (and (<= 0 %s) (< %s (len_%s %s))) (= %s (at_%s %s %s)))", i, i, x, a, t, x, a, i))
						add(fmt.Sprintf("(=> (and (<= (len_%s %s) %s) (< %s (+ (len_%s %s) (len_%s %s)))) (= %s (at_%s %s (- %s (len_%s %s)))))", x, a, i, i, x, a, x, b, t, x, b, i, x, a))
					case "slice_" + x:
						a, lo, hi := s.list[1], s.list[2], s.list[3]
						add(fmt.Sprintf("(=> (and (<= 0 %s) (< %s (- %s %s))) (= %s (at_%s %s (+ %s %s))))", i, i, hi, lo, t, x, a, lo, i))
					case "upd_" + x:
						a, j, e := s.list[1], s.list[2], s.list[3]
						add(fmt.Sprintf("(= %s (ite (and (= %s %s) (<= 0 %s) (< %s (len_%s %s))) %s (at_%s %s %s)))", t, i, j, j, j, x, a, e, x, a, i))
					case "single_" + x:
						add(fmt.Sprintf("(=> (= %s 0) (= %s %s))", i, t, s.list[1]))
					}
				}
			case "seqeq":
				if len(t.list) == 3 {
					add(fmt.Sprintf("(=> %s (= %s %s))", t, t.list[1], t.list[2]))
				}
			}
		})
	}
	return out
}

// Ground produces a quantifier-free version of the query text, plus get-value requests.
func Ground(smt string, want []string, lenBound int, boundTerms []string) string {
	items := parseSexprs(smt)
	g := &grounder{idxSeen: map[string]bool{}, sorts: map[string]string{}}
	var asserts []*sx
	var head []string
	for _, it := range items {
		switch it.head() {
		case "assert":
			body := it.list[1]
			// prelude and spec axioms: top-level quantified assertions are dropped
			b := body
			if b.head() == "!" {
				b = b.list[1]
			}
			if b.head() == "forall" {
				continue
			}
			asserts = append(asserts, body)
		case "check-sat", "get-model", "set-option", "set-logic":
		case "declare-const":
			g.sorts[it.list[1].atom] = it.list[2].String()
			head = append(head, it.String())
		default:
			head = append(head, it.String())
		}
	}
	// candidate index terms: small literals plus integer terms used as indices / in lengths
	for _, lit := range []string{"0", "1", "2", "3"} {
		g.idxTerms = append(g.idxTerms, lit)
		g.idxSeen[lit] = true
	}
	for _, a := range asserts {
		collectTerms(a, func(t *sx) {
			h := t.head()
			if strings.HasPrefix(h, "at_") && len(t.list) == 3 {
				s := t.list[2].String()
				if !g.idxSeen[s] && !strings.Contains(s, "?") && len(s) < 80 {
					g.idxSeen[s] = true
					g.idxTerms = append(g.idxTerms, s)
				}
			}
		})
	}
	var fs []*sx
	for _, a := range asserts {
		fs = append(fs, g.elimQ(a, true))
	}
	// extensionality for sequence disequalities (two passes: elements of sequences of sequences)
	start := 0
	doneEq := map[string]bool{}
	for pass := 0; pass < 2; pass++ {
		end := len(fs)
		for _, f := range fs[start:end] {
			collectTerms(f, func(t *sx) {
				if t.head() == "=" && len(t.list) == 3 && !doneEq[t.String()] {
					for x, info := range seqSfx {
						if termSort(t.list[1], g.sorts) == info[0] || termSort(t.list[2], g.sorts) == info[0] {
							doneEq[t.String()] = true
							k := g.skolem("Int")
							a, b := t.list[1], t.list[2]
							fs = append(fs, parseSexprs(fmt.Sprintf("(=> (not %s) (or (not (= (len_%s %s) (len_%s %s))) (and (<= 0 %s) (< %s (len_%s %s)) (not (= (at_%s %s %s) (at_%s %s %s))))))", t, x, a, x, b, k, k, x, a, x, a, k, x, b, k))[0])
						}
					}
				}
			})
		}
		start = end
	}
	seen := map[string]bool{}
	var inst []string
	cur := fs
	for round := 0; round < 3; round++ {
		ni := g.theoryInstances(cur, seen)
		if len(ni) == 0 {
			break
		}
		inst = append(inst, ni...)
		cur = nil
		for _, s := range ni {
			cur = append(cur, parseSexprs(s)[0])
		}
	}
	var b strings.Builder
	b.WriteString("(set-option :produce-models true)\n(set-logic ALL)\n")
	for _, h := range head {
		b.WriteString(h)
		b.WriteByte('\n')
	}
	for _, d := range g.extraDecl {
		b.WriteString(d)
		b.WriteByte('\n')
	}
	for _, f := range fs {
		fmt.Fprintf(&b, "(assert %s)\n", f)
	}
	sort.Strings(inst)
	for _, s := range inst {
		fmt.Fprintf(&b, "(assert %s)\n", s)
	}
	for _, t := range boundTerms {
		if strings.HasPrefix(t, "3:") {
			fmt.Fprintf(&b, "(assert (<= %s 3))\n", t[2:])
			continue
		}
		fmt.Fprintf(&b, "(assert (<= %s %d))\n", t, lenBound)
	}
	_ = want
	return b.String()
}

func termSort(t *sx, sorts map[string]string) string {
	if t.list == nil {
		if s, ok := sorts[t.atom]; ok {
			return s
		}
		if strings.HasPrefix(t.atom, "empty_") {
			return seqSfx[t.atom[6:]][0]
		}
		if strings.HasPrefix(t.atom, "lit_") {
			return "Bytes"
		}
		return ""
	}
	h := t.head()
	for x, info := range seqSfx {
		for _, op := range []string{"cat_", "slice_", "single_", "upd_"} {
			if h == op+x {
				return info[0]
			}
		}
		if h == "at_"+x {
			return info[1]
		}
		if h == "prj_"+x {
			return info[0]
		}
	}
	if h == "ite" && len(t.list) == 4 {
		return termSort(t.list[2], sorts)
	}
	if h == "select" && len(t.list) == 3 {
		as := termSort(t.list[1], sorts)
		if strings.HasPrefix(as, "(Array Int ") {
			return strings.TrimSuffix(strings.TrimPrefix(as, "(Array Int "), ")")
		}
	}
	if h == "store" && len(t.list) == 4 {
		return termSort(t.list[1], sorts)
	}
	return ""
}
