package main

// evaluation of contract expressions in a symbolic state

import (
	"fmt"
	"go/constant"
	"go/types"
	"strconv"
	"strings"

	"golang.org/x/tools/go/ssa"
)

type Env struct {
	c          *Ctx
	vars       map[string]Val
	cur, old   *State
	fn         *ssa.Function
	callerFn   *ssa.Function
	pkg        *ssa.Package
	frame      *Frame
	goal       bool // true while evaluating a formula we have to prove (positive polarity)
	assumeMode bool
	neutral    bool
	litAt      map[string]Term // known elements of literal sequences: term|index -> element
	lets       []LetDef
	nq         *int
	oldMode    bool // evaluating inside old(...)
}

type evalErr struct{ msg string }

func (e evalErr) Error() string { return e.msg }

func evalFail(f string, a ...interface{}) { panic(evalErr{fmt.Sprintf(f, a...)}) }

func (c *Ctx) envFor(st *State, fr *Frame, entry *State) *Env {
	env := &Env{c: c, vars: map[string]Val{}, cur: st, old: entry, fn: fr.fn, pkg: fr.fn.Pkg, frame: fr}
	if fr.fc != nil {
		env.lets = fr.fc.Lets
	}
	if env.pkg == nil && fr.fn.Parent() != nil {
		env.pkg = fr.fn.Parent().Pkg
	}
	for k, v := range fr.ghosts {
		env.vars[k] = v
	}
	return env
}

func (e *Env) sub() *Env {
	n := *e
	n.vars = map[string]Val{}
	for k, v := range e.vars {
		n.vars[k] = v
	}
	return &n
}

func (e *Env) evalBool(x Expr) Term {
	t := e.eval(x)
	if t.Sort != SBool {
		evalFail("expression %s is not boolean (sort %s)", x, t.Sort)
	}
	return t
}

func (e *Env) asTerm(v Val, st *State) Term {
	switch t := v.(type) {
	case Term:
		return t
	case *Addr:
		lv := e.c.load(st, e.frame, t)
		return e.asTerm(lv, st)
	case *Closure:
		return t.Ref
	case *FuncVal:
		return e.c.funcRef(t.Fn)
	}
	evalFail("value %T is not a term", v)
	return Term{}
}

func (e *Env) lookup(name string) (Term, bool) {
	if v, ok := e.vars[name]; ok {
		return e.asTerm(v, e.cur), true
	}
	for _, l := range e.lets {
		if l.Name == name {
			n := e.sub()
			n.lets = nil
			for _, l2 := range e.lets {
				if l2.Name == name {
					break
				}
				n.lets = append(n.lets, l2)
			}
			return n.eval(l.E), true
		}
	}
	if e.frame != nil && e.oldMode {
		// inside old(...): a parameter name denotes its entry value, whatever was assigned to it since
		if v, ok := e.frame.params[name]; ok {
			if t, isTerm := v.(Term); isTerm {
				return t, true
			}
		}
	}
	if e.frame != nil {
		if key, t, ok := e.c.V.cellByName(e.frame.fn, name); ok {
			a := &Addr{Kind: aCell, Key: key, Elem: t}
			v := e.c.loadCellForSpec(e.cur, a)
			return e.asTerm(v, e.cur), true
		}
		if v, ok := e.frame.params[name]; ok {
			return e.asTerm(v, e.cur), true
		}
	}
	if g, ok := e.c.V.specs.Ghosts[name]; ok {
		so := e.c.V.sortOfTypeName(g.Type)
		return e.c.heapCur(e.cur, "G_"+name, so), true
	}
	// package-level constant or variable
	if e.pkg != nil {
		if t, ok := e.pkgMember(e.pkg, name); ok {
			return t, true
		}
	}
	if e.callerFn != nil && e.callerFn.Pkg != nil {
		if t, ok := e.pkgMember(e.callerFn.Pkg, name); ok {
			return t, true
		}
	}
	return Term{}, false
}

func (c *Ctx) loadCellForSpec(st *State, a *Addr) Val {
	if v, ok := st.cells[a.Key]; ok {
		return v
	}
	switch k := a.Key.(type) {
	case *ssa.Alloc:
		if _, isStruct := a.Elem.Underlying().(*types.Struct); isStruct {
			if r, ok := st.regs[k]; ok {
				return r
			}
		}
		if _, ok := sortOf(a.Elem); !ok {
			evalFail("variable %s has unsupported type %s", k.Comment, a.Elem)
		}
		return c.zeroOf(a.Elem)
	}
	return c.loadCell(st, a)
}

func (e *Env) pkgMember(p *ssa.Package, name string) (Term, bool) {
	m, ok := p.Members[name]
	if !ok {
		return Term{}, false
	}
	switch x := m.(type) {
	case *ssa.NamedConst:
		return e.constTerm(x.Value), true
	case *ssa.Global:
		a := &Addr{Kind: aCell, Key: x, Elem: deref(x.Type())}
		return e.asTerm(e.c.loadCell(e.cur, a), e.cur), true
	}
	return Term{}, false
}

func (e *Env) constTerm(k *ssa.Const) Term {
	v := e.c.constVal(k)
	return v.(Term)
}

func (e *Env) importedPkg(name string) *ssa.Package {
	try := func(p *ssa.Package) *ssa.Package {
		if p == nil {
			return nil
		}
		for _, imp := range p.Pkg.Imports() {
			if imp.Name() == name {
				return p.Prog.Package(imp)
			}
		}
		if p.Pkg.Name() == name {
			return p
		}
		return nil
	}
	if r := try(e.pkg); r != nil {
		return r
	}
	if e.callerFn != nil {
		if r := try(e.callerFn.Pkg); r != nil {
			return r
		}
	}
	// any loaded package of that name
	for _, p := range e.c.V.prog.AllPackages() {
		if p.Pkg.Name() == name {
			return p
		}
	}
	return nil
}

func (e *Env) eval(x Expr) Term {
	switch n := x.(type) {
	case EInt:
		return Term{S: intLit(n.V), Sort: SInt}
	case EStr:
		return e.c.V.lits.Bytes(n.V)
	case EBool:
		return mkBool(n.V)
	case ENil:
		return Term{S: "0", Sort: SInt}
	case EIdent:
		if t, ok := e.lookup(n.Name); ok {
			return t
		}
		evalFail("unknown name %q", n.Name)
	case EOld:
		o := *e
		o.cur = e.old
		o.oldMode = true
		return o.eval(n.X)
	case EUnary:
		switch n.Op {
		case "!":
			s := *e
			s.goal = !e.goal
			return not(s.evalBool(n.X))
		case "-":
			t := e.eval(n.X)
			return mk(SInt, "(- %s)", t.S)
		}
	case ECond:
		cnd := e.both().evalBool(n.C)
		a, b := e.eval(n.A), e.eval(n.B)
		a, b = unifyNil(a, b)
		return ite(cnd, a, b)
	case EBinary:
		return e.binary(n)
	case EField:
		return e.field(n)
	case EIndex:
		s := e.eval(n.X)
		i := e.eval(n.I)
		if e.litAt != nil {
			if el, ok := e.litAt[s.S+"|"+i.S]; ok {
				return el
			}
		}
		if s.Sort.isSeq() {
			r := atOf(s, i)
			if s.GoT != nil {
				r.GoT = elemType(s.GoT)
			}
			return r
		}
		if s.GoT != nil {
			if _, isMap := s.GoT.Underlying().(*types.Map); isMap {
				mi := e.c.mapInfo(s.GoT)
				return e.c.mapGet(e.cur, mi, s, i)
			}
		}
		evalFail("index of non-sequence %s", n.X)
	case ESlice:
		s := e.eval(n.X)
		if !s.Sort.isSeq() {
			evalFail("slice of non-sequence %s", n.X)
		}
		lo := tZero
		if n.Lo != nil {
			lo = e.eval(n.Lo)
		}
		hi := lenOf(s)
		if n.Hi != nil {
			hi = e.eval(n.Hi)
		}
		return sliceOf(s, lo, hi)
	case ECall:
		return e.call(n)
	case EQuant:
		return e.quant(n)
	}
	evalFail("cannot evaluate %s", x)
	return Term{}
}

// both returns an env for sub-formulas that occur in both polarities
func (e *Env) both() *Env {
	s := *e
	s.goal = false
	s.neutral = true
	return &s
}

func intLit(s string) string {
	if strings.HasPrefix(s, "-") {
		return "(- " + s[1:] + ")"
	}
	return s
}

func unifyNil(a, b Term) (Term, Term) {
	if a.Sort != b.Sort {
		if a.Sort == SInt && a.S == "0" && b.Sort.isSeq() {
			a = emptyOf(b.Sort)
		} else if b.Sort == SInt && b.S == "0" && a.Sort.isSeq() {
			b = emptyOf(a.Sort)
		}
	}
	return a, b
}

func (e *Env) binary(n EBinary) Term {
	switch n.Op {
	case "&&":
		return and(e.evalBool(n.L), e.evalBool(n.R))
	case "||":
		return or(e.evalBool(n.L), e.evalBool(n.R))
	case "==>":
		l := *e
		l.goal = !e.goal
		return implies(l.evalBool(n.L), e.evalBool(n.R))
	case "<==>":
		// (L ==> R) && (R ==> L), each side evaluated at its own polarity
		neg := *e
		neg.goal = !e.goal
		a := implies(neg.evalBool(n.L), e.evalBool(n.R))
		b := implies(neg.evalBool(n.R), e.evalBool(n.L))
		return and(a, b)
	}
	l, r := e.eval(n.L), e.eval(n.R)
	l, r = unifyNil(l, r)
	switch n.Op {
	case "==", "!=":
		var t Term
		if l.Sort != r.Sort {
			evalFail("comparison of different sorts in %s: %s vs %s", n, l.Sort, r.Sort)
		}
		if l.Sort.isSeq() {
			t = e.c.goEq(l, r, nil)
		} else {
			t = eq(l, r)
		}
		if n.Op == "!=" {
			return not(t)
		}
		return t
	case "===":
		if !l.Sort.isSeq() || l.Sort != r.Sort {
			evalFail("=== needs two sequences of the same sort in %s", n)
		}
		if e.goal && !e.neutral {
			q := e.freshBound("t")
			return and(eq(lenOf(l), lenOf(r)),
				mk(SBool, "(forall ((%s Int)) (=> (and (<= 0 %s) (< %s %s)) (= %s %s)))", q, q, q, lenOf(l).S, atOf(l, Term{S: q}).S, atOf(r, Term{S: q}).S))
		}
		return eq(l, r)
	case "<", "<=", ">", ">=":
		if l.Sort != SInt || r.Sort != SInt {
			evalFail("ordering on non-integers in %s", n)
		}
		return mk(SBool, "(%s %s %s)", n.Op, l.S, r.S)
	case "+":
		if l.Sort.isSeq() {
			return catOf(l, r)
		}
		return mk(SInt, "(+ %s %s)", l.S, r.S)
	case "++":
		if !l.Sort.isSeq() || l.Sort != r.Sort {
			evalFail("++ needs sequences of one sort in %s (%s, %s)", n, l.Sort, r.Sort)
		}
		return catOf(l, r)
	case "-":
		return mk(SInt, "(- %s %s)", l.S, r.S)
	case "*":
		return mk(SInt, "(* %s %s)", l.S, r.S)
	case "/":
		return mk(SInt, "(godiv %s %s)", l.S, r.S)
	case "%":
		return mk(SInt, "(gomod %s %s)", l.S, r.S)
	}
	evalFail("operator %s", n.Op)
	return Term{}
}

func (e *Env) freshBound(hint string) string {
	e.c.nfresh++
	return fmt.Sprintf("%s?%d", hint, e.c.nfresh)
}

func (c *Ctx) resolveFieldChain(t types.Type, name string) ([]fieldInfo, bool) {
	if t == nil {
		return nil, false
	}
	path, ok := fieldPath(t, name)
	if !ok {
		return nil, false
	}
	var out []fieldInfo
	cur := t
	for _, idx := range path {
		fi := c.fieldByIndex(cur, idx)
		out = append(out, fi)
		cur = fi.GoT
	}
	return out, true
}

func (e *Env) field(n EField) Term {
	// result.0
	if id, ok := n.X.(EIdent); ok {
		if v, ok2 := e.vars[id.Name+"."+n.Name]; ok2 {
			return e.asTerm(v, e.cur)
		}
		if _, isVar := e.lookup(id.Name); !isVar {
			if p := e.importedPkg(id.Name); p != nil {
				if t, ok3 := e.pkgMember(p, n.Name); ok3 {
					return t
				}
				evalFail("package %s has no constant/variable %s", id.Name, n.Name)
			}
		}
	}
	base := e.eval(n.X)
	if base.GoT == nil {
		evalFail("field %s of untyped term %s", n.Name, n.X)
	}
	fis, ok := e.c.resolveFieldChain(base.GoT, n.Name)
	if !ok {
		evalFail("type %s has no field %s", base.GoT, n.Name)
	}
	ref := base
	for _, fi := range fis {
		ref = e.c.loadField(e.cur, ref, fi)
	}
	return ref
}

func (e *Env) quant(n EQuant) Term {
	s := e.sub()
	var binders []string
	var ranges []Term
	for _, b := range n.Vars {
		so := e.c.V.sortOfTypeName(b.Type)
		name := e.freshBound(b.Name)
		t := Term{S: name, Sort: so, GoT: e.c.V.goTypeByName(e, b.Type)}
		s.vars[b.Name] = t
		binders = append(binders, fmt.Sprintf("(%s %s)", name, so))
		if b.Type == "byte" {
			ranges = append(ranges, mk(SBool, "(and (<= 0 %s) (<= %s 255))", name, name))
		}
	}
	body := s.evalBool(n.Body)
	var pats []string
	for _, tr := range n.Triggers {
		var ps []string
		for _, t := range tr {
			ps = append(ps, s.both().eval(t).S)
		}
		pats = append(pats, ":pattern ("+strings.Join(ps, " ")+")")
	}
	rg := and(ranges...)
	q := "forall"
	if n.Forall {
		body = implies(rg, body)
	} else {
		q = "exists"
		body = and(rg, body)
	}
	if len(pats) > 0 {
		return mk(SBool, "(%s (%s) (! %s %s))", q, strings.Join(binders, " "), body.S, strings.Join(pats, " "))
	}
	return mk(SBool, "(%s (%s) %s)", q, strings.Join(binders, " "), body.S)
}

func (e *Env) call(n ECall) Term {
	arg := func(i int) Term { return e.eval(n.Args[i]) }
	need := func(k int) {
		if len(n.Args) != k {
			evalFail("%s expects %d arguments", n.Fn, k)
		}
	}
	switch n.Fn {
	case "len":
		need(1)
		t := arg(0)
		if t.Sort.isSeq() {
			return lenOf(t)
		}
		e.c.declare("(declare-fun maplen (Int) Int)")
		e.c.declare("(assert (forall ((m Int)) (! (>= (maplen m) 0) :pattern ((maplen m)))))")
		return mk(SInt, "(maplen %s)", t.S)
	case "cap":
		need(1)
		return capOf(arg(0))
	case "bytes", "strs", "ints", "refs":
		so := map[string]Sort{"bytes": SBytes, "strs": SSeqB, "ints": SSeqI, "refs": SSeqI}[n.Fn]
		r := emptyOf(so)
		for i := range n.Args {
			a := arg(i)
			if a.Sort != so.elem() {
				evalFail("%s: element %s has sort %s", n.Fn, n.Args[i], a.Sort)
			}
			r = catOf(r, singleOf(so, a))
		}
		return r
	case "str", "string", "b", "int":
		need(1)
		return arg(0)
	case "val":
		// val(p): the value a pointer to a non-struct points to
		need(1)
		pv := arg(0)
		if pv.GoT == nil {
			evalFail("val() of untyped pointer")
		}
		if _, isPtr := pv.GoT.Underlying().(*types.Pointer); !isPtr {
			// the pointer is a place the engine tracks (the address of a field or variable): evaluating it already gave
			// the content
			return pv
		}
		pt := deref(pv.GoT)
		so, ok := sortOf(pt)
		if !ok {
			evalFail("val(): unsupported pointee %s", pt)
		}
		key := "D_" + shortTypeName(pt)
		e.c.V.heapKeys[key] = heapKeyInfo{Owner: typeKey(pt), Field: "<pointee>", Sort: so}
		r := sel(e.c.heapCur(e.cur, key, arrSort(so)), pv, so)
		r.GoT = pt
		return r
	case "flit":
		// the floating point constant with this (integral) value, as the code's constant
		need(1)
		lit, ok := n.Args[0].(EInt)
		if !ok {
			evalFail("flit(<integer literal>)")
		}
		nm := "flt_" + smtIdent(lit.V)
		e.c.declare(fmt.Sprintf("(declare-const %s Int)", nm))
		return Term{S: nm, Sort: SInt}
	case "fmul":
		need(2)
		e.c.declare("(declare-fun flt_mul (Int Int) Int)")
		return mk(SInt, "(flt_mul %s %s)", arg(0).S, arg(1).S)
	case "toint":
		// the value of a float-to-integer conversion int(x) in the code
		need(1)
		e.c.declare("(declare-fun numconv (Int) Int)")
		return mk(SInt, "(numconv %s)", arg(0).S)
	case "ite":
		need(3)
		a, b := unifyNil(arg(1), arg(2))
		return ite(e.both().evalBool(n.Args[0]), a, b)
	case "isErr":
		need(2)
		return mk(SBool, "(errIs %s %s)", arg(0).S, arg(1).S)
	case "wraps":
		need(2)
		return mk(SBool, "(wraps %s %s)", arg(0).S, arg(1).S)
	case "dyntype":
		need(1)
		return mk(SInt, "(dyntype %s)", arg(0).S)
	case "typeis":
		need(2)
		s, ok := n.Args[1].(EStr)
		if !ok {
			evalFail("typeis(x, \"T\")")
		}
		return mk(SBool, "(= (dyntype %s) %d)", arg(0).S, e.c.V.typeID(s.V))
	case "as":
		need(2)
		s, ok := n.Args[1].(EStr)
		if !ok {
			evalFail("as(x, \"T\")")
		}
		t := e.c.V.goTypeByName(e, s.V)
		if t == nil {
			evalFail("as: unknown type %s", s.V)
		}
		return e.c.unbox(arg(0), t)
	case "has", "get":
		need(2)
		m := arg(0)
		if m.GoT == nil {
			evalFail("%s on untyped map", n.Fn)
		}
		if _, isMap := m.GoT.Underlying().(*types.Map); !isMap {
			evalFail("%s on non-map %s", n.Fn, m.GoT)
		}
		mi := e.c.mapInfo(m.GoT)
		k := arg(1)
		if n.Fn == "has" {
			return and(mk(SBool, "(not (= %s 0))", m.S), e.c.mapHas(e.cur, mi, m, k))
		}
		return e.c.mapGet(e.cur, mi, m, k)
	case "fresh":
		need(1)
		x := arg(0)
		refs := []Term{x}
		if x.GoT != nil && isStructPtr(x.GoT) {
			refs = append(refs, e.c.subObjects(e.cur, x, deref(x.GoT), 0)...)
		}
		oa := e.c.aliveCur(e.old)
		var parts []Term
		for i, r := range refs {
			if e.assumeMode {
				ca := e.c.aliveCur(e.cur)
				e.cur.heap[aliveKey] = Term{S: fmt.Sprintf("(store %s %s true)", ca.S, r.S), Sort: ca.Sort}
				parts = append(parts, mk(SBool, "(not (select %s %s))", oa.S, r.S))
			} else {
				ca := e.c.aliveCur(e.cur)
				parts = append(parts, mk(SBool, "(not (select %s %s))", oa.S, r.S), mk(SBool, "(select %s %s)", ca.S, r.S))
			}
			if i == 0 {
				parts = append(parts, mk(SBool, "(not (= %s 0))", r.S))
			}
		}
		return and(parts...)
	case "isnew":
		// allocated after the entry of the function under verification
		need(1)
		return mk(SBool, "(not (select %s %s))", e.c.aliveCur(e.old).S, arg(0).S)
	case "unchanged":
		// unchanged(T.f): every object that existed at function entry still has its entry value of T.f
		need(1)
		key := e.c.V.heapKeyByName(e.c, e, n.Args[0])
		info := e.c.V.heapKeys[key]
		cur := e.c.heapCur(e.cur, key, arrSort(info.Sort))
		old := e.c.heapCur(e.old, key, arrSort(info.Sort))
		q := e.freshBound("r")
		return mk(SBool, "(forall ((%s Int)) (! (=> (select %s %s) (= (select %s %s) (select %s %s))) :pattern ((select %s %s))))", q, e.c.aliveCur(e.old).S, q, cur.S, q, old.S, q, cur.S, q)
	case "alive":
		need(1)
		return mk(SBool, "(select %s %s)", e.c.aliveCur(e.cur).S, arg(0).S)
	case "cancelled":
		need(1)
		return sel(e.c.heapCur(e.cur, ctxDoneKey, arrSort(SBool)), arg(0), SBool)
	case "closed":
		need(1)
		return sel(e.c.heapCur(e.cur, chClosed, arrSort(SBool)), arg(0), SBool)
	case "chlen":
		need(1)
		return sel(e.c.heapCur(e.cur, chLen, arrSort(SInt)), arg(0), SInt)
	case "chval":
		need(1)
		return sel(e.c.heapCur(e.cur, chVal, arrSort(SInt)), arg(0), SInt)
	case "visited":
		need(1)
		for k, v := range e.cur.cells {
			if s, ok := k.(string); ok && strings.HasPrefix(s, "visited:") {
				return mk(SBool, "(select %s %s)", v.(Term).S, arg(0).S)
			}
		}
		evalFail("visited(): no map range in scope")
	case "update":
		need(3)
		return updOf(arg(0), arg(1), arg(2))
	case "single":
		need(1)
		a := arg(0)
		so, ok := seqOf(a.Sort)
		if !ok {
			evalFail("single of %s", a.Sort)
		}
		return singleOf(so, a)
	case "inj":
		need(1)
		a := arg(0)
		switch a.Sort {
		case SBytes:
			return mk(SInt, "(inj_Y %s)", a.S)
		case SSeqB:
			return mk(SInt, "(inj_B %s)", a.S)
		case SSeqI:
			return mk(SInt, "(inj_I %s)", a.S)
		case SBool:
			return mk(SInt, "(inj_Bool %s)", a.S)
		}
		return a
	case "closure":
		// closure(x, "KEY"): x is a function value made from the function literal KEY
		need(2)
		s, ok := n.Args[1].(EStr)
		if !ok {
			evalFail("closure(x, \"KEY\")")
		}
		key := s.V
		if e.c.V.fnByKey[key] == nil {
			if i := strings.Index(e.c.Key, "."); i >= 0 && e.c.V.fnByKey[e.c.Key[:i+1]+key] != nil {
				key = e.c.Key[:i+1] + key
			} else {
				evalFail("closure: no function %s", s.V)
			}
		}
		e.c.declare("(declare-fun closfn (Int) Int)")
		return mk(SBool, "(= (closfn %s) %d)", arg(0).S, e.c.V.typeID("fn:"+key))
	case "funcref":
		// funcref("KEY"): the function value of the named top-level function
		need(1)
		fs, ok := n.Args[0].(EStr)
		if !ok {
			evalFail("funcref(\"KEY\")")
		}
		key := fs.V
		fn := e.c.V.fnByKey[key]
		if fn == nil {
			if i := strings.Index(e.c.Key, "."); i >= 0 {
				fn = e.c.V.fnByKey[e.c.Key[:i+1]+key]
			}
		}
		if fn == nil {
			evalFail("funcref: no function %s", fs.V)
		}
		return e.c.funcRef(fn)
	case "bound":
		// bound(x, i): the i-th captured variable (its address) or captured reference of the function value x
		need(2)
		e.c.declare("(declare-fun closbind (Int Int) Int)")
		return mk(SInt, "(closbind %s %s)", arg(0).S, arg(1).S)
	case "addrof":
		// addrof(x.f): the address of field f of the object x
		// addrof(x), x a pointer-typed variable: the address it holds (also when the engine tracks it as a place)
		need(1)
		if id, isId := n.Args[0].(EIdent); isId {
			if v, ok := e.vars[id.Name]; ok {
				if ad, isA := v.(*Addr); isA {
					return e.c.addrIdentity(ad)
				}
			}
			t := e.eval(n.Args[0])
			if t.Sort != SInt {
				evalFail("addrof(%s): not an address", id.Name)
			}
			return t
		}
		fe, ok := n.Args[0].(EField)
		if !ok {
			evalFail("addrof(x.f)")
		}
		base := e.eval(fe.X)
		if base.GoT == nil {
			evalFail("addrof: untyped base %s", fe.X)
		}
		fis, ok := e.c.resolveFieldChain(base.GoT, fe.Name)
		if !ok {
			evalFail("type %s has no field %s", base.GoT, fe.Name)
		}
		ref := base
		for _, fi := range fis[:len(fis)-1] {
			ref = e.c.loadField(e.cur, ref, fi)
		}
		return mk(SInt, "(sub %s %d)", ref.S, e.c.V.typeID(fis[len(fis)-1].Key))
	case "box":
		need(2)
		s, ok := n.Args[0].(EStr)
		if !ok {
			evalFail("box(\"T\", payload)")
		}
		return mk(SInt, "(box %d %s)", e.c.V.typeID(s.V), arg(1).S)
	}
	sf, ok := e.c.V.specs.Specs[n.Fn]
	if !ok {
		evalFail("unknown function %s", n.Fn)
	}
	if len(sf.Params) != len(n.Args) {
		evalFail("%s expects %d arguments", n.Fn, len(sf.Params))
	}
	if sf.Body != nil {
		s := e.sub()
		s.lets = nil
		s.frame = nil
		newVars := map[string]Val{}
		for i, p := range sf.Params {
			a := arg(i)
			want := e.c.V.sortOfTypeName(p.Type)
			if a.Sort != want {
				if a.Sort == SInt && a.S == "0" && want.isSeq() {
					a = emptyOf(want)
				} else {
					evalFail("%s: argument %d has sort %s, want %s", n.Fn, i, a.Sort, want)
				}
			}
			if a.GoT == nil {
				a.GoT = e.c.V.goTypeByName(e, p.Type)
			}
			newVars[p.Name] = a
		}
		s.vars = newVars
		return s.eval(sf.Body)
	}
	var as []string
	for i, p := range sf.Params {
		a := arg(i)
		want := e.c.V.sortOfTypeName(p.Type)
		if a.Sort != want {
			if a.Sort == SInt && a.S == "0" && want.isSeq() {
				a = emptyOf(want)
			} else {
				evalFail("%s: argument %d has sort %s, want %s", n.Fn, i, a.Sort, want)
			}
		}
		as = append(as, a.S)
	}
	rs := e.c.V.sortOfTypeName(sf.Ret)
	if len(as) == 0 {
		return Term{S: "sp_" + sf.Name, Sort: rs, GoT: e.c.V.goTypeByName(e, sf.Ret)}
	}
	return Term{S: "(sp_" + sf.Name + " " + strings.Join(as, " ") + ")", Sort: rs, GoT: e.c.V.goTypeByName(e, sf.Ret)}
}

var _ = constant.MakeBool
var _ = strconv.Itoa

// expandForall: `forall i int :: 0 <= i && i < len(X) ==> B` with X a composite literal of known elements is
// expanded into one instance per element (labelled by the element when it is a string literal).
func (e *Env) expandForall(x Expr) ([]Term, []string, bool) {
	q, ok := x.(EQuant)
	if !ok || !q.Forall || len(q.Vars) != 1 || q.Vars[0].Type != "int" {
		return nil, nil, false
	}
	imp, ok := q.Body.(EBinary)
	if !ok || imp.Op != "==>" {
		return nil, nil, false
	}
	v := q.Vars[0].Name
	var seqExpr Expr
	var find func(g Expr)
	find = func(g Expr) {
		if b, ok := g.(EBinary); ok {
			if b.Op == "&&" {
				find(b.L)
				find(b.R)
				return
			}
			if id, isID := b.L.(EIdent); isID && id.Name == v && b.Op == "<" {
				if c, isC := b.R.(ECall); isC && c.Fn == "len" && len(c.Args) == 1 {
					seqExpr = c.Args[0]
				}
			}
		}
	}
	find(imp.L)
	if seqExpr == nil {
		return nil, nil, false
	}
	st := e.eval(seqExpr)
	elems, ok := seqLit[st.S]
	if !ok {
		return nil, nil, false
	}
	var out []Term
	var labels []string
	for i, el := range elems {
		s := e.sub()
		s.vars[v] = Term{S: fmt.Sprint(i), Sort: SInt}
		s.litAt = map[string]Term{st.S + "|" + fmt.Sprint(i): el}
		out = append(out, s.evalBool(imp.R))
		lab := fmt.Sprint(i)
		if c, ok := theLits.content(el.S); ok {
			lab = c
		}
		labels = append(labels, lab)
	}
	return out, labels, true
}
