package main

// Lock-discipline obligations (kind "guarded"), decided syntactically on the SSA of the real code:
//
//   //@ guarded [Cnn] Type.f, Type.g by Type.lock
//
// Every load or store of a guarded field, in every function of the repository, happens at a point where on ALL paths
// from the function entry a Lock/RLock of the lock field has been called and not yet released by Unlock/RUnlock
// (a deferred Unlock releases at return). Accesses to an object allocated in the same function (a constructor filling
// in its result) are exempt. The analysis does not tell objects of the same type apart (a Lock of any T.lock counts)
// and does not follow calls: a helper that expects its caller to hold the lock has to be listed as
// `guarded ... callers-hold F1, F2`. This is the sequentialisation argument behind A-SEQUENTIAL made explicit for the
// fields it matters for: with the discipline in place the methods are atomic with respect to those fields.

import (
	"fmt"
	"go/token"
	"go/types"
	"sort"
	"strings"

	"golang.org/x/tools/go/ssa"
)

type GuardSpec struct {
	Fields  []string // pkg.Type.field
	Lock    string   // pkg.Type.lockfield
	Props   []string
	Holders map[string]bool // functions whose callers hold the lock
	Except  map[string]bool // functions exempt from the discipline (argued separately in the contract file)
	Src     string
}

func parseGuarded(rest, pkg string) (*GuardSpec, error) {
	c := &Clause{}
	rest = parseTags(rest, c)
	g := &GuardSpec{Props: c.Props, Holders: map[string]bool{}, Except: map[string]bool{}, Src: rest}
	if k := strings.Index(rest, " except "); k >= 0 {
		for _, h := range strings.Split(rest[k+len(" except "):], ",") {
			if h = strings.TrimSpace(h); h != "" {
				g.Except[qualify(h, pkg)] = true
			}
		}
		rest = rest[:k]
	}
	if k := strings.Index(rest, " callers-hold "); k >= 0 {
		for _, h := range strings.Split(rest[k+len(" callers-hold "):], ",") {
			if h = strings.TrimSpace(h); h != "" {
				g.Holders[qualify(h, pkg)] = true
			}
		}
		rest = rest[:k]
	}
	parts := strings.SplitN(rest, " by ", 2)
	if len(parts) != 2 {
		return nil, fmt.Errorf("guarded [Cnn] T.f, T.g by T.lock [callers-hold F, ...]")
	}
	for _, f := range strings.Split(parts[0], ",") {
		if f = strings.TrimSpace(f); f != "" {
			g.Fields = append(g.Fields, qualify(f, pkg))
		}
	}
	g.Lock = qualify(strings.TrimSpace(parts[1]), pkg)
	return g, nil
}

func fieldKeyOf(fa *ssa.FieldAddr) string {
	s, owner := structOf(fa.X.Type())
	if s == nil {
		return ""
	}
	return typeKey(owner) + "." + s.Field(fa.Field).Name()
}

// guardCheck returns a description of the first unguarded access in f ("" if none)
func (v *Verifier) guardCheck(f *ssa.Function, g *GuardSpec) string {
	guarded := map[string]bool{}
	for _, fld := range g.Fields {
		guarded[fld] = true
	}
	// is this call a Lock/Unlock of the guard's lock field?
	lockOp := func(in ssa.Instruction) (string, bool) {
		ci, ok := in.(ssa.CallInstruction)
		if !ok {
			return "", false
		}
		cc := ci.Common()
		fn, ok := cc.Value.(*ssa.Function)
		if !ok || len(cc.Args) == 0 {
			return "", false
		}
		n := fn.Name()
		if n != "Lock" && n != "Unlock" && n != "RLock" && n != "RUnlock" {
			return "", false
		}
		// receiver: the lock field itself (value mutex) or a load of it (pointer mutex)
		recv := cc.Args[0]
		if u, ok := recv.(*ssa.UnOp); ok && u.Op == token.MUL {
			recv = u.X
		}
		fa, ok := recv.(*ssa.FieldAddr)
		if !ok || fieldKeyOf(fa) != g.Lock {
			return "", false
		}
		if _, isDefer := in.(*ssa.Defer); isDefer {
			return "defer", true
		}
		return n, true
	}
	// base allocated in this function (possibly held in a local variable): a constructor filling in its result
	seen := map[ssa.Value]bool{}
	var isNew func(x ssa.Value) bool
	isNew = func(x ssa.Value) bool {
		if seen[x] {
			return false
		}
		seen[x] = true
		switch y := x.(type) {
		case *ssa.Alloc:
			if s, _ := structOf(y.Type()); s != nil && y.Heap {
				if _, isPtr := deref(y.Type()).Underlying().(*types.Pointer); !isPtr {
					return true
				}
			}
			all, any := true, false
			for _, b := range f.Blocks {
				for _, in := range b.Instrs {
					if st, ok := in.(*ssa.Store); ok && st.Addr == y {
						any = true
						if !isNew(st.Val) {
							all = false
						}
					}
				}
			}
			return any && all
		case *ssa.UnOp:
			if y.Op == token.MUL {
				return isNew(y.X)
			}
		}
		return false
	}
	localObj := func(x ssa.Value) bool {
		seen = map[ssa.Value]bool{}
		return isNew(x)
	}
	held := map[*ssa.BasicBlock]int{} // 0 unknown, 1 held, 2 not held (at block entry)
	if len(f.Blocks) == 0 {
		return ""
	}
	entryHeld := 2
	if g.Holders[v.fnKey(f)] {
		entryHeld = 1
	}
	held[f.Blocks[0]] = entryHeld
	problem := ""
	work := []*ssa.BasicBlock{f.Blocks[0]}
	out := map[*ssa.BasicBlock]int{}
	for len(work) > 0 {
		b := work[0]
		work = work[1:]
		h := held[b]
		for _, in := range b.Instrs {
			if op, ok := lockOp(in); ok {
				switch op {
				case "Lock", "RLock":
					h = 1
				case "Unlock", "RUnlock":
					h = 2
				}
				continue
			}
			var fa *ssa.FieldAddr
			switch x := in.(type) {
			case *ssa.UnOp:
				if x.Op == token.MUL {
					fa, _ = x.X.(*ssa.FieldAddr)
				}
			case *ssa.Store:
				fa, _ = x.Addr.(*ssa.FieldAddr)
			}
			if fa != nil && guarded[fieldKeyOf(fa)] && h != 1 && !localObj(fa.X) && problem == "" {
				pos := v.fset.Position(in.Pos())
				if !pos.IsValid() {
					pos = v.fset.Position(fa.Pos())
				}
				problem = fmt.Sprintf("%s accesses %s without holding %s (%s:%d)", v.fnKey(f), fieldKeyOf(fa), g.Lock, trimRepo(pos.Filename, v.repo), pos.Line)
			}
		}
		if out[b] == h {
			continue
		}
		out[b] = h
		for _, s := range b.Succs {
			nh := h
			if old, ok := held[s]; ok && old != nh {
				nh = 2 // must-analysis: held only if held on every incoming path
			}
			if old, ok := held[s]; !ok || old != nh {
				held[s] = nh
				work = append(work, s)
			}
		}
	}
	return problem
}

// guardViolations checks every function of the repository that touches a guarded field
func (v *Verifier) guardViolations(g *GuardSpec) []string {
	var keys []string
	for k := range v.fnByKey {
		keys = append(keys, k)
	}
	sort.Strings(keys)
	var out []string
	for _, k := range keys {
		f := v.fnByKey[k]
		if f.Blocks == nil {
			continue
		}
		pkg := f.Pkg
		for p := f; pkg == nil && p.Parent() != nil; p = p.Parent() {
			pkg = p.Parent().Pkg
		}
		if pkg == nil || !v.isRepoPkg(pkg.Pkg.Path()) {
			continue
		}
		if g.Except[k] {
			continue
		}
		if why := v.guardCheck(f, g); why != "" {
			out = append(out, why)
		}
	}
	return out
}
