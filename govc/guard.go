package main

// Lock-discipline obligations (kind "guarded"), decided syntactically on the SSA of the real code:
//
//   //@ guarded [Cnn] Type.f, Type.g by Type.lock
//
// Every load or store of a guarded field, in every function of the repository, happens at a point where on ALL paths
// from the function entry a Lock/RLock of the lock field has been called and not yet released by Unlock/RUnlock
// (a deferred Unlock releases at return). Accesses to an object allocated in the same function (a constructor filling
// in its result) are exempt. The analysis does not tell objects of the same type apart (a Lock of any T.lock counts)
// and does not follow calls: a helper that expects its caller to hold the lock has to be listed as
// `guarded ... callers-hold F1, F2`. This is the sequentialisation argument behind A-SEQUENTIAL made explicit for the
// fields it matters for: with the discipline in place the methods are atomic with respect to those fields.

import (
	"fmt"
	"go/token"
	"go/types"
	"sort"
	"strings"

	"golang.org/x/tools/go/ssa"
)

type GuardSpec struct {
	Fields  []string // pkg.Type.field
	Lock    string   // pkg.Type.lockfield
	Props   []string
	Holders map[string]bool // functions whose callers hold the lock
	Released bool           // clause `released T.lock`: every Lock is released before the function returns
	Observer string         // clause `unlocked F by T.lock nonzero-for G, H`: F reads guarded state without the lock
	NonZero  map[string]bool // functions that may act, under the lock, on "F() != 0" (stable for them)
	Except  map[string]bool // functions exempt from the discipline (argued separately in the contract file)
	Src     string
}

func parseGuarded(rest, pkg string, released bool) (*GuardSpec, error) {
	c := &Clause{}
	rest = parseTags(rest, c)
	g := &GuardSpec{Props: c.Props, Holders: map[string]bool{}, Except: map[string]bool{}, Src: rest}
	if k := strings.Index(rest, " except "); k >= 0 {
		for _, h := range strings.Split(rest[k+len(" except "):], ",") {
			if h = strings.TrimSpace(h); h != "" {
				g.Except[qualify(h, pkg)] = true
			}
		}
		rest = rest[:k]
	}
	if k := strings.Index(rest, " callers-hold "); k >= 0 {
		for _, h := range strings.Split(rest[k+len(" callers-hold "):], ",") {
			if h = strings.TrimSpace(h); h != "" {
				g.Holders[qualify(h, pkg)] = true
			}
		}
		rest = rest[:k]
	}
	if k := strings.Index(rest, " nonzero-for "); k >= 0 {
		// unlocked F by T.lock nonzero-for G, H
		g.NonZero = map[string]bool{}
		for _, h := range strings.Split(rest[k+len(" nonzero-for "):], ",") {
			if h = strings.TrimSpace(h); h != "" {
				g.NonZero[qualify(h, pkg)] = true
			}
		}
		parts := strings.SplitN(rest[:k], " by ", 2)
		if len(parts) != 2 {
			return nil, fmt.Errorf("unlocked [Cnn] F by T.lock nonzero-for G, ...")
		}
		g.Observer = qualify(strings.TrimSpace(parts[0]), pkg)
		g.Lock = qualify(strings.TrimSpace(parts[1]), pkg)
		return g, nil
	}
	if released {
		g.Released = true
		g.Lock = qualify(strings.TrimSpace(rest), pkg)
		return g, nil
	}
	parts := strings.SplitN(rest, " by ", 2)
	if len(parts) != 2 {
		return nil, fmt.Errorf("guarded [Cnn] T.f, T.g by T.lock [callers-hold F, ...]")
	}
	for _, f := range strings.Split(parts[0], ",") {
		if f = strings.TrimSpace(f); f != "" {
			g.Fields = append(g.Fields, qualify(f, pkg))
		}
	}
	g.Lock = qualify(strings.TrimSpace(parts[1]), pkg)
	return g, nil
}

func fieldKeyOf(fa *ssa.FieldAddr) string {
	s, owner := structOf(fa.X.Type())
	if s == nil {
		return ""
	}
	return typeKey(owner) + "." + s.Field(fa.Field).Name()
}

// lockOpOf: is this instruction a Lock/Unlock (or a deferred Unlock) of the lock field `lock`?
func lockOpOf(in ssa.Instruction, lock string) (string, bool) {
	ci, ok := in.(ssa.CallInstruction)
	if !ok {
		return "", false
	}
	cc := ci.Common()
	fn, ok := cc.Value.(*ssa.Function)
	if !ok || len(cc.Args) == 0 {
		return "", false
	}
	n := fn.Name()
	if n != "Lock" && n != "Unlock" && n != "RLock" && n != "RUnlock" {
		return "", false
	}
	// receiver: the lock field itself (value mutex) or a load of it (pointer mutex)
	recv := cc.Args[0]
	if u, ok := recv.(*ssa.UnOp); ok && u.Op == token.MUL {
		recv = u.X
	}
	fa, ok := recv.(*ssa.FieldAddr)
	if !ok || fieldKeyOf(fa) != lock {
		return "", false
	}
	if _, isDefer := in.(*ssa.Defer); isDefer {
		if n == "Unlock" || n == "RUnlock" {
			return "defer", true
		}
		return "", false
	}
	return n, true
}

// releaseCheck (clause `released T.lock`): on every path of f, a Lock/RLock of the lock field is followed by an
// Unlock/RUnlock before the function returns, or a deferred Unlock has been registered on every path to that return.
// The analysis keeps the set of possible (held, deferred-release-registered) pairs per block; a return reachable with
// the lock held and no deferred release registered is reported. Panics are not paths (a deferred release covers them, an explicit one does not - the
// clause does not ask for that). Returns a description of the first offending return ("" if none).
func (v *Verifier) releaseCheck(f *ssa.Function, g *GuardSpec) string {
	if len(f.Blocks) == 0 {
		return ""
	}
	// a set of (held, deferred) pairs per block entry, as a bit mask over the four combinations (bit = held + 2*deferred):
	// keeping the pairs apart keeps `if !force { Lock(); defer Unlock() }` exact
	in := map[*ssa.BasicBlock]uint8{f.Blocks[0]: 1 << 0}
	work := []*ssa.BasicBlock{f.Blocks[0]}
	problem := ""
	apply := func(m uint8, fn func(held, deferred bool) (bool, bool)) uint8 {
		var out uint8
		for i := 0; i < 4; i++ {
			if m&(1<<i) != 0 {
				h, d := fn(i&1 != 0, i&2 != 0)
				k := 0
				if h {
					k |= 1
				}
				if d {
					k |= 2
				}
				out |= 1 << k
			}
		}
		return out
	}
	for len(work) > 0 {
		b := work[0]
		work = work[1:]
		s := in[b]
		for _, ins := range b.Instrs {
			if op, ok := lockOpOf(ins, g.Lock); ok {
				switch op {
				case "Lock", "RLock":
					s = apply(s, func(h, d bool) (bool, bool) { return true, d })
				case "Unlock", "RUnlock":
					s = apply(s, func(h, d bool) (bool, bool) { return false, d })
				case "defer":
					s = apply(s, func(h, d bool) (bool, bool) { return h, true })
				}
				continue
			}
			if r, ok := ins.(*ssa.Return); ok && s&(1<<1) != 0 && problem == "" {
				pos := v.fset.Position(r.Pos())
				problem = fmt.Sprintf("%s can return still holding %s (%s:%d)", v.fnKey(f), g.Lock, trimRepo(pos.Filename, v.repo), pos.Line)
			}
		}
		for _, nb := range b.Succs {
			if n := in[nb] | s; n != in[nb] {
				in[nb] = n
				work = append(work, nb)
			}
		}
	}
	return problem
}

// observeCheck (clause `unlocked F by T.lock nonzero-for G, H`): F reads state guarded by the lock without taking it
// (a one-slot mailbox mirror of a counter), so what it returns may be out of date by the time the caller holds the lock.
// The clause states the rely/guarantee argument of the code as a syntactic rule: a function that takes the lock may call
// F only if it is listed, and a listed function may use the reading only as `F() <op> 0` deciding a branch whose
// "reading was zero" side never takes the lock - i.e. the only conclusion acted on under the lock is "not zero", which
// the listed functions (the single consumer) can rely on because every other party only increases the counter.
// Functions that never take the lock may call F freely (pure observers).
func (v *Verifier) observeCheck(f *ssa.Function, g *GuardSpec) string {
	takesLock := false
	var calls []*ssa.Call
	for _, b := range f.Blocks {
		for _, in := range b.Instrs {
			if op, ok := lockOpOf(in, g.Lock); ok && (op == "Lock" || op == "RLock") {
				takesLock = true
			}
			if c, ok := in.(*ssa.Call); ok {
				if fn, ok := c.Call.Value.(*ssa.Function); ok && v.fnKey(fn) == g.Observer {
					calls = append(calls, c)
				}
			}
		}
	}
	if !takesLock || len(calls) == 0 {
		return ""
	}
	where := func(p token.Pos) string {
		pos := v.fset.Position(p)
		return fmt.Sprintf("%s:%d", trimRepo(pos.Filename, v.repo), pos.Line)
	}
	if !g.NonZero[v.fnKey(f)] {
		return fmt.Sprintf("%s takes %s and also reads %s without it (%s): a reading taken before the lock may be out of date under it", v.fnKey(f), g.Lock, shortName(g.Observer), where(calls[0].Pos()))
	}
	// does a path from block b reach a Lock of the lock?
	reachesLock := func(b *ssa.BasicBlock) bool {
		seen := map[*ssa.BasicBlock]bool{}
		work := []*ssa.BasicBlock{b}
		for len(work) > 0 {
			x := work[0]
			work = work[1:]
			if seen[x] {
				continue
			}
			seen[x] = true
			for _, in := range x.Instrs {
				if op, ok := lockOpOf(in, g.Lock); ok && (op == "Lock" || op == "RLock") {
					return true
				}
			}
			work = append(work, x.Succs...)
		}
		return false
	}
	isZero := func(x ssa.Value) bool {
		c, ok := x.(*ssa.Const)
		return ok && c.Value != nil && c.Value.ExactString() == "0"
	}
	for _, c := range calls {
		for _, r := range *c.Referrers() {
			bo, ok := r.(*ssa.BinOp)
			if !ok || !(isZero(bo.X) || isZero(bo.Y)) {
				return fmt.Sprintf("%s uses the reading of %s other than by comparing it with zero (%s)", v.fnKey(f), shortName(g.Observer), where(r.Pos()))
			}
			// which successor of the branch is the "reading was zero" side?
			zeroOnTrue := map[token.Token]bool{token.EQL: true, token.LEQ: isZero(bo.Y), token.GEQ: isZero(bo.X)}
			zeroOnFalse := map[token.Token]bool{token.NEQ: true, token.GTR: isZero(bo.Y), token.LSS: isZero(bo.X)}
			for _, u := range *bo.Referrers() {
				br, ok := u.(*ssa.If)
				if !ok {
					return fmt.Sprintf("%s keeps the outcome of a comparison on the reading of %s (%s)", v.fnKey(f), shortName(g.Observer), where(u.Pos()))
				}
				blk := br.Block()
				var zeroSide *ssa.BasicBlock
				switch {
				case zeroOnTrue[bo.Op]:
					zeroSide = blk.Succs[0]
				case zeroOnFalse[bo.Op]:
					zeroSide = blk.Succs[1]
				default:
					return fmt.Sprintf("%s compares the reading of %s in a way that does not single out zero (%s)", v.fnKey(f), shortName(g.Observer), where(bo.Pos()))
				}
				if reachesLock(zeroSide) {
					return fmt.Sprintf("%s takes %s after reading zero from %s (%s): \"empty\" is not stable, another party may have added since", v.fnKey(f), g.Lock, shortName(g.Observer), where(bo.Pos()))
				}
			}
		}
	}
	return ""
}

// guardCheck returns a description of the first unguarded access in f ("" if none)
func (v *Verifier) guardCheck(f *ssa.Function, g *GuardSpec) string {
	guarded := map[string]bool{}
	for _, fld := range g.Fields {
		guarded[fld] = true
	}
	lockOp := func(in ssa.Instruction) (string, bool) { return lockOpOf(in, g.Lock) }
	// base allocated in this function (possibly held in a local variable): a constructor filling in its result
	seen := map[ssa.Value]bool{}
	var isNew func(x ssa.Value) bool
	isNew = func(x ssa.Value) bool {
		if seen[x] {
			return false
		}
		seen[x] = true
		switch y := x.(type) {
		case *ssa.Alloc:
			if s, _ := structOf(y.Type()); s != nil && y.Heap {
				if _, isPtr := deref(y.Type()).Underlying().(*types.Pointer); !isPtr {
					return true
				}
			}
			all, any := true, false
			for _, b := range f.Blocks {
				for _, in := range b.Instrs {
					if st, ok := in.(*ssa.Store); ok && st.Addr == y {
						any = true
						if !isNew(st.Val) {
							all = false
						}
					}
				}
			}
			return any && all
		case *ssa.UnOp:
			if y.Op == token.MUL {
				return isNew(y.X)
			}
		}
		return false
	}
	localObj := func(x ssa.Value) bool {
		seen = map[ssa.Value]bool{}
		return isNew(x)
	}
	held := map[*ssa.BasicBlock]int{} // 0 unknown, 1 held, 2 not held (at block entry)
	if len(f.Blocks) == 0 {
		return ""
	}
	entryHeld := 2
	if g.Holders[v.fnKey(f)] {
		entryHeld = 1
	}
	held[f.Blocks[0]] = entryHeld
	problem := ""
	work := []*ssa.BasicBlock{f.Blocks[0]}
	out := map[*ssa.BasicBlock]int{}
	for len(work) > 0 {
		b := work[0]
		work = work[1:]
		h := held[b]
		for _, in := range b.Instrs {
			if op, ok := lockOp(in); ok {
				switch op {
				case "Lock", "RLock":
					h = 1
				case "Unlock", "RUnlock":
					h = 2
				}
				continue
			}
			var fa *ssa.FieldAddr
			switch x := in.(type) {
			case *ssa.UnOp:
				if x.Op == token.MUL {
					fa, _ = x.X.(*ssa.FieldAddr)
				}
			case *ssa.Store:
				fa, _ = x.Addr.(*ssa.FieldAddr)
			}
			if fa != nil && guarded[fieldKeyOf(fa)] && h != 1 && !localObj(fa.X) && problem == "" {
				pos := v.fset.Position(in.Pos())
				if !pos.IsValid() {
					pos = v.fset.Position(fa.Pos())
				}
				problem = fmt.Sprintf("%s accesses %s without holding %s (%s:%d)", v.fnKey(f), fieldKeyOf(fa), g.Lock, trimRepo(pos.Filename, v.repo), pos.Line)
			}
		}
		if out[b] == h {
			continue
		}
		out[b] = h
		for _, s := range b.Succs {
			nh := h
			if old, ok := held[s]; ok && old != nh {
				nh = 2 // must-analysis: held only if held on every incoming path
			}
			if old, ok := held[s]; !ok || old != nh {
				held[s] = nh
				work = append(work, s)
			}
		}
	}
	return problem
}

// guardViolations checks every function of the repository that touches a guarded field
func (v *Verifier) guardViolations(g *GuardSpec) []string {
	var keys []string
	for k := range v.fnByKey {
		keys = append(keys, k)
	}
	sort.Strings(keys)
	var out []string
	for _, k := range keys {
		f := v.fnByKey[k]
		if f.Blocks == nil {
			continue
		}
		pkg := f.Pkg
		for p := f; pkg == nil && p.Parent() != nil; p = p.Parent() {
			pkg = p.Parent().Pkg
		}
		if pkg == nil || !v.isRepoPkg(pkg.Pkg.Path()) {
			continue
		}
		if g.Except[k] {
			continue
		}
		check := v.guardCheck
		if g.Released {
			check = v.releaseCheck
		}
		if g.Observer != "" {
			check = v.observeCheck
		}
		if why := check(f, g); why != "" {
			out = append(out, why)
		}
	}
	return out
}
