package main

import (
	"fmt"
	"go/ast"
	"go/token"
	"go/types"
	"os"
	"path/filepath"
	"sort"
	"strings"
	"sync"

	"golang.org/x/tools/go/packages"
	"golang.org/x/tools/go/ssa"
	"golang.org/x/tools/go/ssa/ssautil"
)

const repoModule = "github.com/scrapli/scrapligo"

type heapKeyInfo struct {
	Owner, Field string
	Sort         Sort
}

type Verifier struct {
	curProp string // the property being checked ("" outside `check`)
	repo           string
	verifDir       string
	fset           *token.FileSet
	prog           *ssa.Program
	pkgs           []*packages.Package
	spkgs          []*ssa.Package
	specs          *SpecSet
	lits           *LitTable
	prelude        string
	heapKeys       map[string]heapKeyInfo
	typeIDs        map[string]int
	typeOfID       map[int]types.Type
	assumptions    map[string]bool
	closureOf      map[string]*Closure
	rangeOf        map[*ssa.Range]mapInfoT
	mutatedGlobals map[string]bool
	fnByKey        map[string]*ssa.Function
	keyOfFn        map[*ssa.Function]string
	writeSets      map[*ssa.Function]*wsResult
	sites          map[*ssa.Function]map[ssa.Instruction][]string
	sentinels      map[string]bool // G_pkg_Name of errors.New sentinels
	axiomTerms     []axiomTerm
	axiomsReady    bool
	tier           string
	embedded       []string // files embedded by go:embed directives, relative to their package directory
	embeddedAbs    map[string]string
	axiomUsed      map[int]bool // axioms that were part of at least one query of this run
	axiomMu        sync.Mutex
}

type axiomTerm struct {
	name string
	smt  string
	src  string
}

type wsResult struct {
	keys map[string]bool
	all  bool
}

func NewVerifier(repo, verifDir string) (*Verifier, error) {
	v := &Verifier{repo: repo, verifDir: verifDir, specs: NewSpecSet(), lits: NewLitTable(), heapKeys: map[string]heapKeyInfo{}, typeIDs: map[string]int{}, typeOfID: map[int]types.Type{},
		assumptions: map[string]bool{}, closureOf: map[string]*Closure{}, rangeOf: map[*ssa.Range]mapInfoT{}, mutatedGlobals: map[string]bool{},
		fnByKey: map[string]*ssa.Function{}, keyOfFn: map[*ssa.Function]string{}, writeSets: map[*ssa.Function]*wsResult{}, sites: map[*ssa.Function]map[ssa.Instruction][]string{},
		sentinels: map[string]bool{}}
	theLits = v.lits
	v.prelude = Prelude() + `(define-fun godiv ((x Int) (y Int)) Int (ite (>= x 0) (ite (> y 0) (div x y) (- (div x (- y)))) (ite (> y 0) (- (div (- x) y)) (div (- x) (- y)))))
(define-fun gomod ((x Int) (y Int)) Int (- x (* y (godiv x y))))
`
	cfg := &packages.Config{Mode: packages.LoadAllSyntax | packages.NeedEmbedFiles, Dir: repo, BuildFlags: []string{"-tags=verif"}, Env: append(os.Environ(), "GOFLAGS=-mod=mod", "GOPROXY=off", "GOSUMDB=off", "GOTOOLCHAIN=local")}
	pkgs, err := packages.Load(cfg, "./...")
	if err != nil {
		return nil, err
	}
	var keep []*packages.Package
	for _, p := range pkgs {
		if strings.Contains(p.PkgPath, "/examples/") {
			continue
		}
		if len(p.Errors) > 0 {
			return nil, fmt.Errorf("package %s: %v", p.PkgPath, p.Errors[0])
		}
		keep = append(keep, p)
	}
	v.pkgs = keep
	prog, spkgs := ssautil.Packages(keep, ssa.NaiveForm|ssa.InstantiateGenerics)
	prog.Build()
	v.prog, v.spkgs = prog, spkgs
	v.fset = prog.Fset
	// index functions
	for f := range ssautil.AllFunctions(prog) {
		k := v.fnKey(f)
		if k == "" {
			continue
		}
		if old, dup := v.fnByKey[k]; dup && old != f {
			// prefer the one with a body from a repo package
			if old.Blocks != nil {
				continue
			}
		}
		v.fnByKey[k] = f
	}
	// contract files in the repo and dependency specs
	for _, p := range keep {
		for _, gf := range p.GoFiles {
			if filepath.Base(gf) == "zz_contracts_verif.go" {
				if err := v.specs.ReadSpecFile(gf, p.Name); err != nil {
					return nil, err
				}
			}
		}
		v.scanSentinels(p)
		for _, ef := range p.EmbedFiles {
			dir := filepath.Dir(p.GoFiles[0])
			if rel, err := filepath.Rel(dir, ef); err == nil {
				v.embedded = append(v.embedded, rel)
				if v.embeddedAbs == nil {
					v.embeddedAbs = map[string]string{}
				}
				v.embeddedAbs[rel] = ef
			}
		}
	}
	sort.Strings(v.embedded)
	specFiles, _ := filepath.Glob(filepath.Join(verifDir, "spec", "*.spec"))
	sort.Strings(specFiles)
	for _, sf := range specFiles {
		if err := v.specs.ReadSpecFile(sf, ""); err != nil {
			return nil, err
		}
	}
	return v, nil
}

func (v *Verifier) isRepoPkg(path string) bool {
	return path == repoModule || strings.HasPrefix(path, repoModule+"/")
}

func (v *Verifier) scanSentinels(p *packages.Package) {
	for _, f := range p.Syntax {
		for _, d := range f.Decls {
			gd, ok := d.(*ast.GenDecl)
			if !ok || gd.Tok != token.VAR {
				continue
			}
			for _, s := range gd.Specs {
				vs := s.(*ast.ValueSpec)
				for i, n := range vs.Names {
					if i >= len(vs.Values) {
						continue
					}
					call, ok := vs.Values[i].(*ast.CallExpr)
					if !ok {
						continue
					}
					sel, ok := call.Fun.(*ast.SelectorExpr)
					if !ok {
						continue
					}
					if id, ok := sel.X.(*ast.Ident); ok && id.Name == "errors" && sel.Sel.Name == "New" {
						v.sentinels["G_"+p.Name+"_"+n.Name] = true
					}
				}
			}
		}
	}
}

func (v *Verifier) noteGlobal(c *Ctx, g *ssa.Global, t Term) {
	if !v.sentinels[t.S] {
		return
	}
	c.declare(fmt.Sprintf("(assert (not (= %s 0)))", t.S))
	c.declare(fmt.Sprintf("(assert (forall ((x Int)) (! (=> (errIs %s x) (= x %s)) :pattern ((errIs %s x)))))", t.S, t.S, t.S))
	for _, o := range c.seenSentinels {
		if o != t.S {
			c.declare(fmt.Sprintf("(assert (not (= %s %s)))", o, t.S))
		}
	}
	seen := false
	for _, o := range c.seenSentinels {
		if o == t.S {
			seen = true
		}
	}
	if !seen {
		c.seenSentinels = append(c.seenSentinels, t.S)
	}
	v.assumptions["A-SENTINEL: package-level error variables initialised by errors.New are distinct, non-nil, never reassigned and wrap nothing"] = true
}

// fnKey: pkgname.Func | pkgname.(*T).Method | parentKey$N
func (v *Verifier) fnKey(f *ssa.Function) string {
	if k, ok := v.keyOfFn[f]; ok {
		return k
	}
	k := v.computeFnKey(f)
	v.keyOfFn[f] = k
	return k
}

func (v *Verifier) computeFnKey(f *ssa.Function) string {
	if f.Parent() != nil {
		pk := v.fnKey(f.Parent())
		name := f.Name()
		if i := strings.LastIndex(name, "$"); i >= 0 {
			// name is Parent$N ; nested closures are Parent$N$M
			pn := f.Parent().Name()
			return pk + strings.TrimPrefix(name, pn)
		}
		return pk + "$" + name
	}
	if f.Synthetic != "" && f.Pkg == nil && f.Signature.Recv() == nil {
		return ""
	}
	qual := func(p *types.Package) string { return p.Name() }
	if recv := f.Signature.Recv(); recv != nil {
		rt := recv.Type()
		ptr := ""
		if p, ok := rt.(*types.Pointer); ok {
			rt = p.Elem()
			ptr = "*"
		}
		named, ok := rt.(*types.Named)
		if !ok {
			return ""
		}
		pkg := ""
		if named.Obj().Pkg() != nil {
			pkg = named.Obj().Pkg().Name() + "."
		}
		_ = qual
		return fmt.Sprintf("%s(%s%s).%s", pkg, ptr, named.Obj().Name(), f.Name())
	}
	if f.Pkg != nil {
		return f.Pkg.Pkg.Name() + "." + f.Name()
	}
	if f.Object() != nil && f.Object().Pkg() != nil {
		return f.Object().Pkg().Name() + "." + f.Name()
	}
	return ""
}

func (v *Verifier) contractFor(f *ssa.Function) *FuncContract {
	return v.specs.Funcs[v.fnKey(f)]
}

func (v *Verifier) typeByID(id int) types.Type {
	return v.typeOfID[id]
}

func (v *Verifier) typeIDOf(t types.Type) int {
	id := v.typeID(typeKey(t))
	v.typeOfID[id] = t
	return id
}

func (v *Verifier) typeID(name string) int {
	if id, ok := v.typeIDs[name]; ok {
		return id
	}
	id := len(v.typeIDs) + 1
	v.typeIDs[name] = id
	return id
}

func countInstrs(f *ssa.Function) int {
	n := 0
	for _, b := range f.Blocks {
		n += len(b.Instrs)
	}
	return n
}

func (v *Verifier) canInline(f *ssa.Function, fr *Frame) bool {
	if f.Blocks == nil {
		return false
	}
	pkg := f.Pkg
	if pkg == nil && f.Parent() != nil {
		pkg = f.Parent().Pkg
	}
	if pkg == nil || !v.isRepoPkg(pkg.Pkg.Path()) {
		return false
	}
	if fr.depth >= 4 {
		return false
	}
	if len(computeLoops(f)) > 0 {
		return false
	}
	if countInstrs(f) > 400 {
		return false
	}
	k := v.fnKey(f)
	if k == v.fnKey(fr.fn) || strings.Contains(">"+fr.inlineOf+">", ">"+k+">") {
		return false
	}
	return true
}

// write sets -------------------------------------------------------------------------------------

func (v *Verifier) writeSet(c *Ctx, f *ssa.Function, stack map[*ssa.Function]bool) *wsResult {
	if r, ok := v.writeSets[f]; ok {
		return r
	}
	if stack[f] {
		return &wsResult{keys: map[string]bool{}}
	}
	stack[f] = true
	defer delete(stack, f)
	r := &wsResult{keys: map[string]bool{}}
	if f.Blocks == nil {
		v.writeSets[f] = r
		return r
	}
	for _, b := range f.Blocks {
		for _, in := range b.Instrs {
			switch x := in.(type) {
			case *ssa.Store:
				v.addrWrites(c, x.Addr, r)
			case *ssa.MapUpdate:
				mi := c.mapInfo(x.Map.Type())
				r.keys[mi.KeyHas] = true
				r.keys[mi.KeyVal] = true
			case *ssa.Send, *ssa.Select:
				r.keys[chLen] = true
				r.keys[chVal] = true
			case *ssa.UnOp:
				if x.Op == token.ARROW {
					r.keys[chLen] = true
					r.keys[chVal] = true
				}
			case *ssa.Alloc, *ssa.MakeMap, *ssa.MakeChan, *ssa.MakeClosure:
			case ssa.CallInstruction:
				ws, all := v.callWritesIn(c, f, x.Common(), stack)
				for k := range ws {
					r.keys[k] = true
				}
				if all {
					r.all = true
				}
			}
		}
	}
	v.writeSets[f] = r
	return r
}

func (v *Verifier) addrWrites(c *Ctx, a ssa.Value, r *wsResult) {
	switch x := a.(type) {
	case *ssa.FieldAddr:
		defer func() { recover() }()
		fi := c.fieldByIndex(x.X.Type(), x.Field)
		r.keys[fi.Key] = true
	case *ssa.IndexAddr:
		if u, ok := x.X.(*ssa.UnOp); ok && u.Op == token.MUL {
			v.addrWrites(c, u.X, r)
		}
	case *ssa.Global:
		r.keys["global:"+x.Name()] = true
	}
}

func (v *Verifier) contractWrites(c *Ctx, fc *FuncContract) (map[string]bool, bool) {
	ws := map[string]bool{}
	if fc.Pure || !fc.HasMod {
		return ws, false
	}
	for _, m := range fc.Modifies {
		switch e := m.E.(type) {
		case EField:
			// the field name decides the heap map; owner type resolved by name over all known structs
			for _, k := range v.heapKeysForField(c, fc, e) {
				ws[k] = true
			}
		case EIdent:
			if e.Name == "everything" {
				return ws, true
			}
			if _, ok := v.specs.Ghosts[e.Name]; ok {
				ws["G_"+e.Name] = true
			}
		case ECall:
			switch e.Fn {
			case "all":
				ws[v.heapKeyByName(c, nil, e.Args[0])] = true
			case "alloc":
				ws[aliveKey] = true
			case "chan", "chans":
				ws[chLen], ws[chVal], ws[chClosed] = true, true, true
			case "object":
				return ws, true
			case "keys", "mapof":
				// resolved at havoc time; conservatively all map heaps
				for k := range v.heapKeys {
					if strings.HasPrefix(k, "MK_") || strings.HasPrefix(k, "MV_") {
						ws[k] = true
					}
				}
			}
		}
	}
	return ws, false
}

// heapKeysForField finds heap maps a `modifies x.f` clause may denote (by static type of x in the callee).
func (v *Verifier) heapKeysForField(c *Ctx, fc *FuncContract, e EField) []string {
	f := v.fnByKey[fc.Key]
	var out []string
	if f != nil {
		if id, ok := e.X.(EIdent); ok {
			for _, p := range f.Params {
				if p.Name() == id.Name {
					if fis, ok := c.resolveFieldChain(p.Type(), e.Name); ok {
						return []string{fis[len(fis)-1].Key}
					}
				}
			}
		}
	}
	suffix := "_" + e.Name
	for k := range v.heapKeys {
		if strings.HasPrefix(k, "H_") && strings.HasSuffix(k, suffix) {
			out = append(out, k)
		}
	}
	return out
}

func (v *Verifier) heapKeyByName(c *Ctx, env *Env, e Expr) string {
	// all(T.f) with T a type name of the current package, or pkg.T.f
	parts := strings.Split(e.String(), ".")
	if len(parts) < 2 {
		unsupp("all(T.f) expected, got %s", e)
	}
	field := parts[len(parts)-1]
	tname := parts[len(parts)-2]
	for k, info := range v.heapKeys {
		if info.Field == field && (strings.HasSuffix(info.Owner, "."+tname) || info.Owner == tname) {
			return k
		}
	}
	// not touched yet: construct from loaded packages
	for _, p := range v.pkgs {
		if len(parts) == 3 && p.Name != parts[0] {
			continue
		}
		if obj := p.Types.Scope().Lookup(tname); obj != nil {
			if path, ok := fieldPath(obj.Type(), field); ok && len(path) == 1 {
				return c.fieldByIndex(obj.Type(), path[0]).Key
			}
		}
	}
	unsupp("all(%s): unknown field", e)
	return ""
}

func (v *Verifier) callWritesIn(c *Ctx, caller *ssa.Function, cc *ssa.CallCommon, stack map[*ssa.Function]bool) (map[string]bool, bool) {
	if _, isB := cc.Value.(*ssa.Builtin); isB {
		ws := map[string]bool{}
		bi := cc.Value.(*ssa.Builtin)
		switch bi.Name() {
		case "delete":
			mi := c.mapInfo(cc.Args[0].Type())
			ws[mi.KeyHas] = true
		case "close":
			ws[chClosed] = true
		}
		return ws, false
	}
	if cc.IsInvoke() {
		key := typeKey(cc.Value.Type()) + "." + cc.Method.Name()
		if fc := v.specs.Funcs[key]; fc != nil {
			return v.contractWrites(c, fc)
		}
		return map[string]bool{}, false // A-EXTPURE
	}
	var callee *ssa.Function
	switch x := cc.Value.(type) {
	case *ssa.Function:
		callee = x
	case *ssa.MakeClosure:
		callee = x.Fn.(*ssa.Function)
	}
	if callee == nil {
		// dynamic function value
		key := "dyn:" + c.dynKey(&Frame{fn: caller}, cc.Value)
		if fc := v.specs.Funcs[key]; fc != nil {
			return v.contractWrites(c, fc)
		}
		return map[string]bool{}, true
	}
	if fc := v.contractFor(callee); fc != nil && (fc.HasMod || fc.Trusted) {
		return v.contractWrites(c, fc)
	}
	if callee.Blocks == nil {
		return map[string]bool{}, false // external without contract: assumed not to write repo state
	}
	r := v.writeSet(c, callee, stack)
	return r.keys, r.all
}

func (v *Verifier) callWrites(c *Ctx, fr *Frame, cc *ssa.CallCommon) (map[string]bool, bool) {
	return v.callWritesIn(c, fr.fn, cc, map[*ssa.Function]bool{})
}

func (v *Verifier) writeSetOfTarget(c *Ctx, tgt callTarget) (map[string]bool, bool) {
	if tgt.fn == nil {
		if strings.HasPrefix(tgt.key, "dyn:") {
			return map[string]bool{}, true
		}
		return map[string]bool{}, false
	}
	if tgt.fn.Blocks == nil {
		return map[string]bool{}, false
	}
	r := v.writeSet(c, tgt.fn, map[*ssa.Function]bool{})
	out := map[string]bool{}
	for k := range r.keys {
		if !strings.HasPrefix(k, "global:") {
			out[k] = true
		}
	}
	return out, r.all
}

// names --------------------------------------------------------------------------------------------

// cellByName finds the k-th local variable called name (name or name#k) in f, in source order.
func (v *Verifier) cellByName(f *ssa.Function, name string) (interface{}, types.Type, bool) {
	want := 1
	if i := strings.Index(name, "#"); i >= 0 {
		fmt.Sscanf(name[i+1:], "%d", &want)
		name = name[:i]
	}
	type cand struct {
		a   *ssa.Alloc
		pos token.Pos
		ord int
	}
	var cs []cand
	n := 0
	for _, b := range f.Blocks {
		for _, in := range b.Instrs {
			if a, ok := in.(*ssa.Alloc); ok && a.Comment == name {
				cs = append(cs, cand{a, a.Pos(), n})
				n++
			}
		}
	}
	sort.SliceStable(cs, func(i, j int) bool {
		if cs[i].pos != cs[j].pos && cs[i].pos.IsValid() && cs[j].pos.IsValid() {
			return cs[i].pos < cs[j].pos
		}
		return cs[i].ord < cs[j].ord
	})
	if want <= len(cs) {
		a := cs[want-1].a
		return a, deref(a.Type()), true
	}
	for _, fv := range f.FreeVars {
		if fv.Name() == name {
			return fv, deref(fv.Type()), true
		}
	}
	return nil, nil, false
}

// callSites numbers the call sites of f per callee short name, in source order.
func (v *Verifier) callSites(f *ssa.Function) map[ssa.Instruction][]string {
	if m, ok := v.sites[f]; ok {
		return m
	}
	type site struct {
		in   ssa.Instruction
		name string
		full string
		ord  int
	}
	var all []site
	n := 0
	for _, b := range f.Blocks {
		for _, in := range b.Instrs {
			ci, ok := in.(ssa.CallInstruction)
			if !ok {
				continue
			}
			cc := ci.Common()
			name, full := "", ""
			if cc.IsInvoke() {
				name = cc.Method.Name()
				full = typeKey(cc.Value.Type()) + "." + name
			} else {
				switch x := cc.Value.(type) {
				case *ssa.Function:
					name = x.Name()
					full = v.fnKey(x)
				case *ssa.MakeClosure:
					name = x.Fn.Name()
					full = v.fnKey(x.Fn.(*ssa.Function))
				case *ssa.Builtin:
					name = x.Name()
					full = "builtin." + name
				default:
					name = "dyn"
					full = "dyn"
				}
			}
			if _, isGo := in.(*ssa.Go); isGo {
				all = append(all, site{in, "go", "go:" + full, n})
				n++
			}
			all = append(all, site{in, name, full, n})
			n++
		}
	}
	sort.SliceStable(all, func(i, j int) bool {
		pi, pj := all[i].in.Pos(), all[j].in.Pos()
		if pi.IsValid() && pj.IsValid() && pi != pj {
			return pi < pj
		}
		return all[i].ord < all[j].ord
	})
	m := map[ssa.Instruction][]string{}
	cnt := map[string]int{}
	for _, s := range all {
		cnt[s.name]++
		m[s.in] = append(m[s.in], fmt.Sprintf("%s#%d", s.name, cnt[s.name]))
		if s.full != s.name {
			cnt[s.full]++
			m[s.in] = append(m[s.in], fmt.Sprintf("%s#%d", s.full, cnt[s.full]))
		}
	}
	v.sites[f] = m
	return m
}

func (v *Verifier) sortOfTypeName(t string) Sort {
	switch t {
	case "int", "byte", "ref", "error", "any", "int64", "uint8", "duration":
		return SInt
	case "bool":
		return SBool
	case "string", "[]byte":
		return SBytes
	case "[]string", "[][]byte":
		return SSeqB
	case "[]int", "[]ref":
		return SSeqI
	case "[][]string", "[][][]byte":
		return SSeqC
	case "set[string]":
		return Sort("(Array Bytes Bool)")
	case "set[int]":
		return Sort("(Array Int Bool)")
	}
	if strings.HasPrefix(t, "[]") {
		return SSeqI
	}
	return SInt
}

func (v *Verifier) goTypeByName(e *Env, t string) types.Type {
	switch t {
	case "int":
		return types.Typ[types.Int]
	case "byte":
		return types.Typ[types.Uint8]
	case "bool":
		return types.Typ[types.Bool]
	case "string":
		return types.Typ[types.String]
	case "[]byte":
		return types.NewSlice(types.Typ[types.Uint8])
	case "[]string":
		return types.NewSlice(types.Typ[types.String])
	case "[][]byte":
		return types.NewSlice(types.NewSlice(types.Typ[types.Uint8]))
	case "ref", "error":
		return nil
	case "any", "interface{}":
		return types.NewInterfaceType(nil, nil)
	case "float64":
		return types.Typ[types.Float64]
	case "[]interface{}", "[]any":
		return types.NewSlice(types.NewInterfaceType(nil, nil))
	}
	slice := false
	if strings.HasPrefix(t, "[]") {
		slice = true
		t = t[2:]
	}
	ptr := strings.HasPrefix(t, "*")
	t = strings.TrimPrefix(t, "*")
	var pkgName, name string
	if i := strings.Index(t, "."); i >= 0 {
		pkgName, name = t[:i], t[i+1:]
	} else {
		name = t
	}
	var scope *types.Scope
	if pkgName == "" {
		if e != nil && e.pkg != nil {
			scope = e.pkg.Pkg.Scope()
		}
	} else {
		for _, p := range v.pkgs {
			if p.Name == pkgName {
				scope = p.Types.Scope()
			}
		}
		if scope == nil {
			for _, p := range v.prog.AllPackages() {
				if p.Pkg.Name() == pkgName {
					scope = p.Pkg.Scope()
				}
			}
		}
	}
	if scope == nil {
		return nil
	}
	obj := scope.Lookup(name)
	if obj == nil {
		return nil
	}
	var r types.Type = obj.Type()
	if ptr {
		r = types.NewPointer(r)
	}
	if slice {
		r = types.NewSlice(r)
	}
	return r
}

// spec declarations and axioms for a query body -----------------------------------------------------

func (v *Verifier) prepareAxioms(c *Ctx) {
	if v.axiomsReady {
		return
	}
	v.axiomsReady = true
	if _, ok := v.specs.Specs["embedded"]; ok {
		// ground facts extracted from the go:embed directives and the directory listing of the current tree
		for _, f := range v.embedded {
			v.axiomTerms = append(v.axiomTerms, axiomTerm{name: "embedded:" + f, smt: fmt.Sprintf("(sp_embedded %s)", v.lits.Bytes(f).S), src: "embedded(" + f + ") [from go:embed]"})
		}
	}
	for i, ax := range v.specs.Axioms {
		st := newState()
		env := &Env{c: c, vars: map[string]Val{}, cur: st, old: st}
		func() {
			defer func() {
				if r := recover(); r != nil {
					v.specs.Errors = append(v.specs.Errors, fmt.Sprintf("axiom %s: %v", ax.Src, r))
				}
			}()
			t := env.evalBool(ax.E)
			name := ax.Name
			if name == "" {
				name = fmt.Sprintf("ax%d", i)
			}
			v.axiomTerms = append(v.axiomTerms, axiomTerm{name: name, smt: t.S, src: ax.Src})
		}()
	}
}

func (v *Verifier) specDecls(body string) string {
	// fixpoint: axioms are included when they share an sp_ symbol with the body
	used := map[string]bool{}
	include := map[int]bool{}
	text := body
	changed := true
	for changed {
		changed = false
		for name := range v.specs.Specs {
			sym := "sp_" + name
			if !used[name] && containsSymbol(text, sym) {
				used[name] = true
				changed = true
			}
		}
		for i, ax := range v.axiomTerms {
			if include[i] {
				continue
			}
			for name := range used {
				if containsSymbol(ax.smt, "sp_"+name) {
					include[i] = true
					text += " " + ax.smt
					changed = true
					break
				}
			}
		}
	}
	var b strings.Builder
	var names []string
	for n := range used {
		names = append(names, n)
	}
	sort.Strings(names)
	for _, n := range names {
		sf := v.specs.Specs[n]
		if sf.Body != nil {
			continue
		}
		var ps []string
		for _, p := range sf.Params {
			ps = append(ps, string(v.sortOfTypeName(p.Type)))
		}
		if len(ps) == 0 {
			fmt.Fprintf(&b, "(declare-const sp_%s %s)\n", n, v.sortOfTypeName(sf.Ret))
		} else {
			fmt.Fprintf(&b, "(declare-fun sp_%s (%s) %s)\n", n, strings.Join(ps, " "), v.sortOfTypeName(sf.Ret))
		}
	}
	var idx []int
	for i := range include {
		idx = append(idx, i)
	}
	sort.Ints(idx)
	for _, i := range idx {
		fmt.Fprintf(&b, "(assert %s)\n", v.axiomTerms[i].smt)
		v.axiomMu.Lock()
		if v.axiomUsed == nil {
			v.axiomUsed = map[int]bool{}
		}
		v.axiomUsed[i] = true
		v.axiomMu.Unlock()
	}
	return b.String()
}

func containsSymbol(text, sym string) bool {
	i := 0
	for {
		j := strings.Index(text[i:], sym)
		if j < 0 {
			return false
		}
		end := i + j + len(sym)
		if end >= len(text) || !isIdentChar(text[end]) {
			return true
		}
		i = end
	}
}

func isIdentChar(b byte) bool {
	return b == '_' || b == '!' || b == '?' || (b >= 'a' && b <= 'z') || (b >= 'A' && b <= 'Z') || (b >= '0' && b <= '9')
}
