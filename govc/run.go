package main

import (
	"fmt"
	"go/token"
	"go/types"
	"sort"
	"strings"

	"golang.org/x/tools/go/ssa"
)

type FuncResult struct {
	Key       string
	Ctx       *Ctx
	Undecided []string
	Obls      []*Obl
	Covers    []*Query // reachability of return points (vacuity guard): at least one must NOT be unsat
	Loops     int
	Paths     int
}

func (v *Verifier) VerifyFunc(f *ssa.Function, fc *FuncContract) (res *FuncResult) {
	c := &Ctx{V: v, Fn: f, FC: fc, Key: v.fnKey(f), declSet: map[string]bool{}, obls: map[string]*Obl{}, maxPaths: 6000, trusted: map[string]bool{}, inlined: map[string]bool{}, usedContracts: map[string]bool{}, callCovered: map[string]bool{}, blockCovers: map[*ssa.BasicBlock][]*Query{}}
	res = &FuncResult{Key: c.Key, Ctx: c}
	v.prepareAxioms(c)
	defer func() {
		if r := recover(); r != nil {
			switch e := r.(type) {
			case unsupported:
				res.Undecided = append(res.Undecided, "unsupported: "+e.msg)
			case evalErr:
				res.Undecided = append(res.Undecided, "contract error: "+e.msg)
			case pathLimit:
				res.Undecided = append(res.Undecided, fmt.Sprintf("path limit %d exceeded", c.maxPaths))
			default:
				panic(r)
			}
		}
		for _, n := range sortedKeys(c.loopNotes) {
			res.Undecided = append(res.Undecided, n)
		}
		if len(res.Undecided) == 0 && fc != nil && !fc.NoVerify && f.Blocks != nil {
			res.Undecided = append(res.Undecided, c.unmatchedAtCall(f, fc)...)
		}
		c.nameObligations()
		res.Obls = c.oblOrder
		res.Paths = c.paths
	}()
	if f.Blocks == nil {
		res.Undecided = append(res.Undecided, "no body")
		return
	}
	st := newState()
	fr := &Frame{fn: f, fc: fc, loops: computeLoops(f), params: map[string]Val{}, ghosts: map[string]Val{}}
	if fc != nil && fc.NoVerify {
		// body outside the symbolic executor's subset (goroutine hand-off): only its information-flow clauses are decided
		c.flowObligations(fr)
		return
	}
	res.Loops = len(fr.loops)
	for _, p := range f.Params {
		var pv Term
		if _, ok := sortOf(p.Type()); !ok {
			pv = c.fresh("p_"+p.Name(), SInt)
		} else {
			pv = c.freshTyped(st, "p_"+p.Name(), p.Type())
		}
		pv.GoT = p.Type()
		if pv.Sort == SInt && (isStructPtr(p.Type())) {
			c.assumeAlive(st, pv)
			if !(fc != nil && fc.NilCheck) {
				st.assume(mk(SBool, "(not (= %s 0))", pv.S))
			}
		}
		st.regs[p] = pv
		fr.params[p.Name()] = pv
	}
	if fc != nil {
		for _, g := range fc.Ghosts {
			gv := c.fresh("ghost_"+g.Name, v.sortOfTypeName(g.Type))
			gv.GoT = v.goTypeByName(&Env{pkg: f.Pkg}, g.Type)
			fr.ghosts[g.Name] = gv
		}
	}
	// captured variables: initial contents are symbols; remember them as entry values
	for _, fv := range f.FreeVars {
		et := deref(fv.Type())
		if _, ok := sortOf(et); ok {
			if _, isStruct := et.Underlying().(*types.Struct); !isStruct {
				fr.params[fv.Name()] = c.initialSymbol("fv_"+fv.Name(), et)
			}
		}
	}
	st.assume(mk(SBool, "(not (select %s 0))", c.aliveCur(st).S))
	fr.entry = st.heapSnapshot()
	if fc != nil {
		env := c.entryEnv(st, fr)
		for _, cl := range fc.Clauses {
			if cl.Kind == "requires" {
				if cl.Assumed {
					c.V.assumptions["assumed precondition of "+c.Key+" (the body is verified under it, callers are not asked for it): "+cl.Src] = true
				}
				st.assume(env.evalBool(cl.E))
			}
		}
	}
	fr.entry = st.heapSnapshot()
	fr.onReturn = func(st2 *State, results []Val) {
		c.topReturn(st2, fr, results, res)
	}
	c.flowObligations(fr)
	c.execBlock(st, fr, f.Blocks[0], nil)
	return
}

// flowObligations: explicit information flow (see flow.go); decided syntactically, reported like any other obligation
func (c *Ctx) flowObligations(fr *Frame) {
	v := c.V
	if fr.fc == nil {
		return
	}
	for _, fl := range fr.fc.Flows {
		why := v.flowCheck(fr.fn, fl)
		src := "flows " + fl.Text
		if why != "" {
			src += "  -- VIOLATED: " + fl.Src + " is " + why
		}
		c.oblige(newState(), fr, "flow", fl.Src, fl.Label, fr.fn.Pos(), mkBool(why == ""), fl.Props, src)
	}
	for gi, g := range v.specs.Guards {
		if v.guardHome(g) != c.Key {
			continue
		}
		bad := v.guardViolations(g)
		src, nm := "guarded "+g.Src, "lock-discipline"
		if g.Released {
			src, nm = "released "+g.Src, "lock-released"
		}
		if g.Observer != "" {
			src, nm = "unlocked "+g.Src, "unlocked-reading"
		}
		if len(bad) > 0 {
			src += "  -- VIOLATED: " + strings.Join(bad, "; ")
		}
		// numbered among the clauses of the same kind on the same lock (stable when clauses on other locks come and go)
		n := 0
		for _, og := range v.specs.Guards[:gi+1] {
			if og.Lock == g.Lock && og.Released == g.Released && og.Observer == g.Observer {
				n++
			}
		}
		if g.Released || g.Observer != "" {
			c.oblige(newState(), fr, "guarded", shortOwner(g.Lock), nm, fr.fn.Pos(), mkBool(len(bad) == 0), g.Props, src)
		} else {
			c.oblige(newState(), fr, "guarded", shortOwner(g.Lock), fmt.Sprintf("%s-%d", nm, n), fr.fn.Pos(), mkBool(len(bad) == 0), g.Props, src)
		}
	}
	var fields []string
	for k := range v.specs.Secrets {
		fields = append(fields, k)
	}
	sort.Strings(fields)
	for _, k := range fields {
		sf := v.specs.Secrets[k]
		mine := false
		allowed := map[string]bool{}
		for _, r := range sf.Readers {
			allowed[r] = true
		}
		mine = len(sf.Readers) > 0 && sf.Readers[0] == c.Key // reported once, at the first listed reader
		if !mine {
			continue
		}
		// a function outside the list may still compare the field or take its length; anything else it does with the
		// value (pass it on, store it, return it) is a flow nobody answers for
		var extra []string
		k2 := strings.LastIndex(sf.Field, ".")
		for _, r := range v.secretReaders(sf.Field) {
			if allowed[r] {
				continue
			}
			if why := v.flowCheck(v.fnByKey[r], &FlowClause{Src: sf.Field[:k2] + "::." + sf.Field[k2+1:]}); why != "" {
				extra = append(extra, r+": "+why)
			}
		}
		src := "secret " + sf.Field + " flows only through " + strings.Join(sf.Readers, ", ")
		if len(extra) > 0 {
			src += "  -- VIOLATED: " + strings.Join(extra, "; ")
		}
		c.oblige(newState(), fr, "readers", shortOwner(sf.Field[:strings.LastIndex(sf.Field, ".")])+"."+sf.Field[strings.LastIndex(sf.Field, ".")+1:], "", fr.fn.Pos(), mkBool(len(extra) == 0), sf.Props, src)
	}
}

// entryEnv: parameter names denote entry values; heap is the given state
func (c *Ctx) entryEnv(st *State, fr *Frame) *Env {
	env := &Env{c: c, vars: map[string]Val{}, cur: st, old: fr.entry, fn: fr.fn, pkg: fr.fn.Pkg}
	if env.pkg == nil && fr.fn.Parent() != nil {
		p := fr.fn.Parent()
		for p.Parent() != nil {
			p = p.Parent()
		}
		env.pkg = p.Pkg
	}
	for k, v := range fr.params {
		env.vars[k] = v
	}
	for k, v := range fr.ghosts {
		env.vars[k] = v
	}
	if fr.fc != nil {
		env.lets = fr.fc.Lets
	}
	return env
}

func (c *Ctx) topReturn(st *State, fr *Frame, results []Val, res *FuncResult) {
	fc := fr.fc
	pos := fr.fn.Pos()
	var rts []Term
	for _, r := range results {
		rts = append(rts, c.valAsTerm(r))
	}
	for i := range rts {
		if rts[i].GoT == nil {
			rts[i].GoT = fr.fn.Signature.Results().At(i).Type()
		}
	}
	// reachability witness for the vacuity guard
	res.Covers = append(res.Covers, &Query{Obl: &Obl{Fn: c.Key, Kind: "cover", Name: c.Key + "/cover"}, PC: append([]string(nil), st.pc...), Goal: "false", NDecl: len(c.decls), Trace: strings.Join(st.trace, ">"), Ctx: c})
	if fc != nil {
		// ghost outputs: `at return set G = expr` defines a ghost variable from the final state
		for _, cl := range fc.Clauses {
			if cl.Kind != "atreturnset" {
				continue
			}
			g, ok := c.V.specs.Ghosts[cl.Site]
			if !ok {
				evalFail("at return set: unknown ghost variable %s", cl.Site)
			}
			env := c.envFor(st, fr, fr.entry)
			bindResults(env, fr.fn.Signature, rts)
			v := env.eval(cl.E)
			want := c.V.sortOfTypeName(g.Type)
			if v.Sort != want {
				evalFail("at return set %s: sort %s, want %s", cl.Site, v.Sort, want)
			}
			st.heap["G_"+g.Name] = v
		}
		// at return: locals visible
		for _, cl := range fc.Clauses {
			if cl.Kind != "atreturn" {
				continue
			}
			env := c.envFor(st, fr, fr.entry)
			bindResults(env, fr.fn.Signature, rts)
			env.goal = true
			// a return clause that cannot be stated any more (it names a local the change removed) leaves THAT clause
			// undecided, not the whole function: the other clauses of the function are still checked
			func() {
				defer func() {
					if r := recover(); r != nil {
						e, ok := r.(evalErr)
						if !ok {
							panic(r)
						}
						if c.loopNotes == nil {
							c.loopNotes = map[string]bool{}
						}
						c.loopNotes["contract error in return clause #"+cl.Label+" (this clause is undecided, the rest of the function is checked): "+e.msg] = true
					}
				}()
				g := env.evalBool(cl.E)
				c.oblige(st, fr, "atreturn", "", cl.Label, pos, g, cl.Props, cl.Src)
			}()
		}
		for _, cl := range fc.Clauses {
			if cl.Kind != "ensures" {
				continue
			}
			if fc.Abstract {
				c.V.assumptions["abstract contract of "+c.Key+": postconditions and frame are assumed at call sites (ghost-level summary of the layers below); the body is checked against its call-site / return clauses only"] = true
				continue
			}
			if cl.Assumed {
				c.V.assumptions["assumed postcondition of "+c.Key+" (used by callers, not proved against the body): "+cl.Src] = true
				continue
			}
			env := c.entryEnv(st, fr)
			bindResults(env, fr.fn.Signature, rts)
			env.goal = true
			if insts, labels, ok := env.expandForall(cl.E); ok {
				for i, g := range insts {
					c.oblige(st, fr, "post", "", cl.Label+"["+labels[i]+"]", pos, g, cl.Props, cl.Src)
				}
				continue
			}
			c.curClause = cl
			c.oblige(st, fr, "post", "", cl.Label, pos, env.evalBool(cl.E), cl.Props, cl.Src)
			c.curClause = nil
		}
		if fc.Defines != nil {
			c.oblige(st, fr, "defines", fc.Defines.Fn, "", pos, mkBool(definesStructurallyOK(fr.fn, fc.Defines)), nil, "the function returns one closure whose captured variables are exactly the named parameters, in order")
		}
		if fc.HasMod && !fc.Abstract {
			c.frameObligations(st, fr, pos)
		}
	}
	c.endPath()
}

// frameObligations: every heap map changed on this path is unchanged outside the declared locations.
func (c *Ctx) frameObligations(st *State, fr *Frame, pos token.Pos) {
	fc := fr.fc
	allowed := map[string][]Term{} // heap key -> refs that may change
	wholeOK := map[string]bool{}
	env := c.entryEnv(fr.entry, fr)
	for _, m := range fc.Modifies {
		switch e := m.E.(type) {
		case EField:
			base := env.eval(e.X)
			fis, ok := c.resolveFieldChain(base.GoT, e.Name)
			if !ok {
				evalFail("modifies: no field %s on %v", e.Name, base.GoT)
			}
			ref := base
			for _, fi := range fis[:len(fis)-1] {
				ref = c.loadField(fr.entry, ref, fi)
			}
			last := fis[len(fis)-1]
			if isRepoStruct(last.GoT) {
				// a struct-typed field: all fields of the embedded object may change
				c.allowSubObject(fr.entry, allowed, c.loadField(fr.entry, ref, last), last.GoT, 0)
			} else {
				allowed[last.Key] = append(allowed[last.Key], ref)
			}
		case EIdent:
			if e.Name == "everything" {
				return
			}
			wholeOK["G_"+e.Name] = true
		case ECall:
			switch e.Fn {
			case "all":
				wholeOK[c.V.heapKeyByName(c, env, e.Args[0])] = true
			case "alloc":
				wholeOK[aliveKey] = true
			case "chan":
				x := env.eval(e.Args[0])
				for _, k := range []string{chLen, chVal, chClosed} {
					allowed[k] = append(allowed[k], x)
				}
			case "chans":
				wholeOK[chLen], wholeOK[chVal], wholeOK[chClosed] = true, true, true
			case "keys", "mapof":
				base := env.eval(e.Args[0])
				mi := c.mapInfo(base.GoT)
				allowed[mi.KeyHas] = append(allowed[mi.KeyHas], base)
				allowed[mi.KeyVal] = append(allowed[mi.KeyVal], base)
			case "elems":
			}
		}
	}
	if st.epoch != 0 {
		c.oblige(st, fr, "frame", "everything", "", pos, tFalse, nil, "a call to an unknown function may have written any location")
		return
	}
	var keys []string
	for k := range st.heap {
		keys = append(keys, k)
	}
	sort.Strings(keys)
	al0 := c.aliveCur(fr.entry)
	for _, k := range keys {
		if k == aliveKey || wholeOK[k] || k == ctxDoneKey {
			continue
		}
		cur := st.heap[k]
		init := fmt.Sprintf("%s_0", k)
		if cur.S == init {
			continue
		}
		if strings.HasPrefix(k, "G_") {
			// a ghost declared `local` is bookkeeping inside one function body (set and read there only): no frame
			if g, ok := c.V.specs.Ghosts[k[2:]]; ok && g.Local {
				continue
			}
			c.oblige(st, fr, "frame", k, "", pos, eq(cur, Term{S: init, Sort: cur.Sort}), nil, "ghost variable not in modifies")
			continue
		}
		var excl []string
		for _, r := range allowed[k] {
			excl = append(excl, fmt.Sprintf("(not (= r %s))", r.S))
		}
		cond := fmt.Sprintf("(select %s r)", al0.S)
		if len(excl) > 0 {
			cond = "(and " + cond + " " + strings.Join(excl, " ") + ")"
		}
		goal := mk(SBool, "(forall ((r Int)) (=> %s (= (select %s r) (select %s r))))", cond, cur.S, init)
		c.oblige(st, fr, "frame", k, "", pos, goal, nil, "locations outside `modifies` unchanged")
	}
}

// channel invariants -----------------------------------------------------------------------------------
// declared in a function contract as:  chaninv NAME v => EXPR   (NAME: local/captured variable holding the channel)

func (c *Ctx) chanInv(st *State, fr *Frame, chv ssa.Value, v Val, pos token.Pos, prove bool) {
	name := ""
	global := ""
	switch x := chv.(type) {
	case *ssa.UnOp:
		switch a := x.X.(type) {
		case *ssa.Alloc:
			name = a.Comment
		case *ssa.FreeVar:
			name = a.Name()
		case *ssa.FieldAddr:
			s, owner := structOf(a.X.Type())
			if s != nil {
				name = s.Field(a.Field).Name()
				global = typeKey(owner) + "." + name
			}
		}
	case *ssa.Parameter:
		name = x.Name()
	case *ssa.FreeVar:
		name = x.Name()
	}
	if name == "" {
		return
	}
	invs := c.V.chanInvs(fr)
	if global != "" {
		for _, ci := range c.V.specs.GlobalChanInvs {
			if ci.Name == global {
				ci2 := ci
				ci2.Name = name
				invs = append(invs, ci2)
			}
		}
	}
	for _, ci := range invs {
		if ci.Name != name {
			continue
		}
		env := c.envFor(st, fr, fr.entry)
		t := c.valAsTerm(v)
		if t.GoT == nil {
			t.GoT = chv.Type().Underlying().(*types.Chan).Elem()
		}
		env.vars[ci.Var] = t
		if prove {
			env.goal = true
			c.oblige(st, fr, "chaninv", name, ci.Label, pos, env.evalBool(ci.E), nil, ci.Src)
		} else {
			st.assume(env.evalBool(ci.E))
		}
	}
}

type chanInvDef struct {
	Name, Var, Label, Src string
	E                     Expr
}

func (v *Verifier) chanInvs(fr *Frame) []chanInvDef {
	// channel invariants are looked up on the function and on its enclosing functions
	var out []chanInvDef
	f := fr.fn
	for f != nil {
		if fc := v.contractFor(f); fc != nil {
			out = append(out, fc.ChanInvs...)
		}
		f = f.Parent()
	}
	return out
}

func (c *Ctx) allowSubObject(st *State, allowed map[string][]Term, ref Term, t types.Type, depth int) {
	s, owner := structOf(t)
	if s == nil || depth > 3 {
		return
	}
	for i := 0; i < s.NumFields(); i++ {
		fi := c.fieldByIndex(owner, i)
		if isRepoStruct(fi.GoT) {
			c.allowSubObject(st, allowed, c.loadField(st, ref, fi), fi.GoT, depth+1)
			continue
		}
		allowed[fi.Key] = append(allowed[fi.Key], ref)
	}
}

// definesStructurallyOK: the constructor consists of one MakeClosure over its own parameter cells, in the order the
// `defines` clause names them, and returns it. Then `NAME(args)` denotes exactly "that closure with its captured
// variables holding args", which is what the closure's own contract (over its captured variables) describes.
func definesStructurallyOK(f *ssa.Function, d *ECall) bool {
	var mc *ssa.MakeClosure
	nret := 0
	for _, b := range f.Blocks {
		for _, in := range b.Instrs {
			switch x := in.(type) {
			case *ssa.MakeClosure:
				if mc != nil {
					return false
				}
				mc = x
			case *ssa.Return:
				nret++
				if len(x.Results) != 1 {
					return false
				}
			case *ssa.Call:
				if bi, ok := x.Call.Value.(*ssa.Builtin); !ok || bi.Name() != "ssa:deferstack" {
					return false
				}
			case *ssa.Go, *ssa.Defer, *ssa.MapUpdate, *ssa.Send:
				return false
			case *ssa.Store:
				// only stores into the function's own local cells (parameter spills, the result slot)
				if _, ok := x.Addr.(*ssa.Alloc); !ok {
					return false
				}
				// a parameter cell is written exactly once, with the parameter itself
				if a := x.Addr.(*ssa.Alloc); a.Heap {
					if p, isP := x.Val.(*ssa.Parameter); !isP || p.Name() != a.Comment {
						return false
					}
				}
			}
		}
	}
	if mc == nil && len(d.Args) == 0 && nret == 1 {
		// a constructor without parameters returns a closure-free function literal
		return len(f.AnonFuncs) == 1
	}
	if mc == nil || nret != 1 || len(mc.Bindings) != len(d.Args) {
		return false
	}
	for i, bnd := range mc.Bindings {
		a, ok := bnd.(*ssa.Alloc)
		if !ok {
			return false
		}
		id, ok := d.Args[i].(EIdent)
		if !ok || a.Comment != id.Name {
			return false
		}
		isParam := false
		for _, p := range f.Params {
			if p.Name() == id.Name {
				isParam = true
			}
		}
		if !isParam {
			return false
		}
	}
	return true
}

// unmatchedAtCall: an `at call` clause reads "whenever this call happens"; when the call no longer exists the clause
// holds vacuously, but the contract is out of date - reported as undecided (not as a violation), so it shows in the
// evidence instead of passing silently. An `at call!` clause says the call itself is part of the property (the return
// IS written, the credential IS sent through the redacting write): its disappearance fails the obligation.
func (c *Ctx) unmatchedAtCall(f *ssa.Function, fc *FuncContract) []string {
	var out []string
	for _, cl := range fc.Clauses {
		if cl.Kind != "atcall" {
			continue
		}
		found := false
		for _, o := range c.oblOrder {
			if o.Kind == "atcall" && o.Detail == cl.Site && strings.HasPrefix(o.Src, cl.Src) {
				found = true
			}
		}
		if found {
			continue
		}
		if cl.Required {
			c.curClause = cl
			c.oblige(newState(), nil, "atcall", cl.Site, cl.Label, f.Pos(), tFalse, cl.Props, cl.Src+"  -- VIOLATED: no explored path reaches a call "+cl.Site+" any more, and the clause requires the call")
			c.curClause = nil
			continue
		}
		out = append(out, fmt.Sprintf("at call %s: no explored path reaches such a call (clause #%s is vacuous; contract out of date?)", cl.Site, cl.Label))
	}
	return out
}

// guardHome: the function under contract at which a lock-discipline obligation is reported (the first, in key order,
// of the lock's package that is verified for one of the guard's properties)
func (v *Verifier) guardHome(g *GuardSpec) string {
	pkg := g.Lock
	if i := strings.Index(pkg, "."); i >= 0 {
		pkg = pkg[:i]
	}
	var keys []string
	for k, fc := range v.specs.Funcs {
		if fc.Trusted || fc.NoVerify || fc.Asset != nil || !strings.HasPrefix(k, pkg+".") {
			continue
		}
		ok := false
		for _, p := range g.Props {
			// under `check Cnn` the home is a function verified for Cnn (so a clause tagged with several properties is
			// reported under each of them)
			if hasProp(fc.Props, p) && (v.curProp == "" || !hasProp(g.Props, v.curProp) || p == v.curProp) {
				ok = true
			}
		}
		if ok {
			keys = append(keys, k)
		}
	}
	sort.Strings(keys)
	if len(keys) == 0 {
		return ""
	}
	return keys[0]
}
