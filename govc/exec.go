package main

import (
	"fmt"
	"go/constant"
	"go/token"
	"go/types"
	"strings"

	"golang.org/x/tools/go/ssa"
)

type pathLimit struct{}

func (c *Ctx) zeroOf(t types.Type) Term {
	s := mustSort(t)
	var z Term
	switch {
	case s == SBool:
		z = tFalse
	case s == SInt:
		z = tZero
	case s.isSeq():
		z = emptyOf(s)
	default:
		unsupp("zero of %s", t)
	}
	z.GoT = t
	return z
}

func (c *Ctx) constVal(k *ssa.Const) Val {
	t := k.Type()
	if k.Value == nil {
		if _, ok := t.Underlying().(*types.Struct); ok {
			return c.zeroOf(t)
		}
		return c.zeroOf(t)
	}
	switch k.Value.Kind() {
	case constant.Bool:
		r := mkBool(constant.BoolVal(k.Value))
		r.GoT = t
		return r
	case constant.Int:
		if v, ok := constant.Int64Val(k.Value); ok {
			r := mkInt(v)
			r.GoT = t
			return r
		}
		if v, ok := constant.Uint64Val(k.Value); ok {
			r := mk(SInt, "%d", v)
			r.GoT = t
			return r
		}
	case constant.String:
		r := c.V.lits.Bytes(constant.StringVal(k.Value))
		r.GoT = t
		return r
	case constant.Float:
		if isInteger(t) {
			if v, ok := constant.Int64Val(constant.ToInt(k.Value)); ok {
				return mkInt(v)
			}
		}
		n := "flt_" + smtIdent(k.Value.ExactString())
		c.declare(fmt.Sprintf("(declare-const %s Int)", n))
		return Term{S: n, Sort: SInt, GoT: t}
	}
	unsupp("constant %s", k)
	return nil
}

func (c *Ctx) get(st *State, fr *Frame, v ssa.Value) Val {
	switch x := v.(type) {
	case *ssa.Const:
		return c.constVal(x)
	case *ssa.Function:
		return &FuncVal{Fn: x}
	case *ssa.Global:
		return &Addr{Kind: aCell, Key: x, Elem: deref(x.Type())}
	case *ssa.FreeVar:
		if r, ok := st.regs[x]; ok {
			return r
		}
		return &Addr{Kind: aCell, Key: x, Elem: deref(x.Type())}
	case *ssa.Builtin:
		return x
	}
	r, ok := st.regs[v]
	if !ok {
		unsupp("value %s (%T) has no binding", v.Name(), v)
	}
	return r
}

func (c *Ctx) term(st *State, fr *Frame, v ssa.Value) Term {
	r := c.get(st, fr, v)
	switch t := r.(type) {
	case Term:
		return t
	case *Closure:
		return t.Ref
	case *FuncVal:
		return c.funcRef(t.Fn)
	case *Addr:
		// pointer used as first-class value: give it an opaque identity
		id := c.addrIdentity(t)
		if t.Elem != nil {
			id.GoT = types.NewPointer(t.Elem)
		}
		return id
	}
	unsupp("value %s is not a term (%T)", v.Name(), r)
	return Term{}
}

func (c *Ctx) funcRef(f *ssa.Function) Term {
	n := "fn_" + smtIdent(f.String())
	c.declare(fmt.Sprintf("(declare-const %s Int)", n))
	c.declare(fmt.Sprintf("(assert (not (= %s 0)))", n))
	return Term{S: n, Sort: SInt}
}

func (c *Ctx) addrIdentity(a *Addr) Term {
	switch a.Kind {
	case aCell:
		n := "adr_" + smtIdent(cellName(a.Key))
		if al, ok := a.Key.(*ssa.Alloc); ok {
			n = fmt.Sprintf("adr_%s_%s_%d", smtIdent(al.Parent().Name()), smtIdent(al.Comment), int(al.Pos()))
		}
		c.declare(fmt.Sprintf("(declare-const %s Int)", n))
		c.declare(fmt.Sprintf("(assert (not (= %s 0)))", n))
		return Term{S: n, Sort: SInt}
	case aField:
		return mk(SInt, "(sub %s %d)", a.Ref.S, c.V.typeID(a.HKey))
	}
	return c.fresh("adr", SInt)
}

// cells -----------------------------------------------------------------------

func cellName(key interface{}) string {
	switch k := key.(type) {
	case *ssa.Alloc:
		return k.Comment
	case *ssa.FreeVar:
		return k.Name()
	case *ssa.Global:
		return k.Name()
	case string:
		return k
	}
	return "?"
}

func (c *Ctx) loadCell(st *State, a *Addr) Val {
	if st.volatile[a.Key] {
		return c.freshTyped(st, "vol_"+cellName(a.Key), a.Elem)
	}
	if v, ok := st.cells[a.Key]; ok {
		return v
	}
	switch k := a.Key.(type) {
	case *ssa.Alloc:
		return c.zeroOf(a.Elem)
	case *ssa.FreeVar:
		v := c.initialSymbol("fv_"+k.Name(), a.Elem)
		return v
	case *ssa.Global:
		return c.globalValue(k)
	}
	unsupp("load of unknown cell")
	return nil
}

func (c *Ctx) initialSymbol(name string, t types.Type) Term {
	s := mustSort(t)
	n := smtIdent(name)
	c.declare(fmt.Sprintf("(declare-const %s %s)", n, s))
	v := Term{S: n, Sort: s, GoT: t}
	if r := intRange(t, v); r.S != "true" {
		c.declare(fmt.Sprintf("(assert %s)", r.S))
	}
	return v
}

func (c *Ctx) globalValue(g *ssa.Global) Term {
	t := deref(g.Type())
	name := "G_" + g.Pkg.Pkg.Name() + "_" + g.Name()
	v := c.initialSymbol(name, t)
	c.V.noteGlobal(c, g, v)
	return v
}

func (c *Ctx) load(st *State, fr *Frame, a *Addr) Val {
	switch a.Kind {
	case aCell:
		return c.loadCell(st, a)
	case aField:
		h := c.heapCur(st, a.HKey, arrSort(mustSort(a.Elem)))
		v := sel(h, a.Ref, mustSort(a.Elem))
		v.GoT = a.Elem
		if v.Sort == SInt && isRefType(a.Elem) {
			c.assumeAlive(st, v)
		}
		return v
	case aElem:
		var seq Term
		if a.Origin != nil {
			ov := c.load(st, fr, a.Origin)
			seq = ov.(Term)
		} else {
			seq = a.Seq
		}
		v := atOf(seq, a.Idx)
		v.GoT = a.Elem
		st.assume(intRange(a.Elem, v))
		return v
	}
	return c.freshTyped(st, "opaque", a.Elem)
}

func (c *Ctx) store(st *State, fr *Frame, a *Addr, v Val, pos token.Pos) {
	switch a.Kind {
	case aCell:
		if _, isG := a.Key.(*ssa.Global); isG {
			c.V.mutatedGlobals[cellName(a.Key)] = true
		}
		st.cells[a.Key] = v
	case aField:
		t, ok := v.(Term)
		if !ok {
			t = c.valAsTerm(v)
		}
		h := c.heapCur(st, a.HKey, arrSort(mustSort(a.Elem)))
		st.heap[a.HKey] = sto(h, a.Ref, c.coerce(t, mustSort(a.Elem)))
	case aElem:
		if a.Origin == nil {
			unsupp("element store into a slice that is not held in a local variable or field (aliasing not modelled)")
		}
		cur := c.load(st, fr, a.Origin).(Term)
		if a.Origin.Kind == aCell {
			if _, isAlloc := a.Origin.Key.(*ssa.Alloc); !isAlloc {
				unsupp("element store through captured/global slice")
			}
		}
		if !st.fresh[cur.S] {
			unsupp("element store into slice %s not allocated in this function (aliasing not modelled)", cellNameOf(a.Origin))
		}
		t := c.valAsTerm(v)
		nv := updOf(cur, a.Idx, t)
		st.fresh[nv.S] = true
		c.store(st, fr, a.Origin, nv, pos)
	default:
		unsupp("store through opaque pointer")
	}
}

func cellNameOf(a *Addr) string {
	if a.Kind == aCell {
		return cellName(a.Key)
	}
	return a.HKey
}

func (c *Ctx) valAsTerm(v Val) Term {
	switch t := v.(type) {
	case Term:
		return t
	case *Closure:
		return t.Ref
	case *FuncVal:
		return c.funcRef(t.Fn)
	case *Addr:
		return c.addrIdentity(t)
	}
	unsupp("value %T is not first-class", v)
	return Term{}
}

// struct allocation ---------------------------------------------------------------

func (c *Ctx) zeroInitStruct(st *State, ref Term, t types.Type, depth int) {
	s, owner := structOf(t)
	if s == nil || depth > 3 {
		return
	}
	named, _ := owner.(*types.Named)
	if depth == 0 && named != nil && named.Obj().Pkg() != nil && !c.V.isRepoPkg(named.Obj().Pkg().Path()) {
		return // external struct allocated on its own: opaque (a nested one is part of a repository object: zeroed)
	}
	for i := 0; i < s.NumFields(); i++ {
		fi := c.fieldByIndex(owner, i)
		if isRepoStruct(fi.GoT) {
			sub := c.loadField(st, ref, fi)
			// the embedded object is part of the new allocation
			al := c.aliveCur(st)
			st.assume(mk(SBool, "(not (select %s %s))", al.S, sub.S))
			st.heap[aliveKey] = Term{S: fmt.Sprintf("(store %s %s true)", al.S, sub.S), Sort: al.Sort}
			c.zeroInitStruct(st, sub, fi.GoT, depth+1)
			continue
		}
		if _, ok := sortOf(fi.GoT); !ok {
			continue
		}
		c.storeField(st, ref, fi, c.zeroOf(fi.GoT))
	}
}

// execution -------------------------------------------------------------------------

func (c *Ctx) execBlock(st *State, fr *Frame, b *ssa.BasicBlock, pred *ssa.BasicBlock) {
	st.trace = append(st.trace, fmt.Sprintf("%d", b.Index))
	if fr.depth == 0 && len(c.blockCovers[b]) < 12 {
		// vacuity guard: every basic block of the function should be reachable under the contracts in force
		c.blockCovers[b] = append(c.blockCovers[b], &Query{Obl: &Obl{Fn: c.Key, Kind: "cover", Name: c.Key + "/block-cover"}, PC: append([]string(nil), st.pc...), Goal: "false", NDecl: len(c.decls), Ctx: c, Trace: strings.Join(st.trace, ">")})
	}
	if li := fr.loops[b]; li != nil {
		if !c.enterLoopHead(st, fr, li, pred) {
			c.endPath()
			return
		}
	}
	// phis
	idx := 0
	if pred != nil {
		for i, p := range b.Preds {
			if p == pred {
				idx = i
			}
		}
	}
	var phiVals []Val
	var phis []*ssa.Phi
	for _, in := range b.Instrs {
		if phi, ok := in.(*ssa.Phi); ok {
			phis = append(phis, phi)
			phiVals = append(phiVals, c.get(st, fr, phi.Edges[idx]))
		} else {
			break
		}
	}
	for i, phi := range phis {
		st.regs[phi] = phiVals[i]
	}
	c.execInstrs(st, fr, b, len(phis))
}

func (c *Ctx) endPath() {
	c.paths++
	if c.paths > c.maxPaths {
		panic(pathLimit{})
	}
}

func (c *Ctx) execInstrs(st *State, fr *Frame, b *ssa.BasicBlock, from int) {
	for i := from; i < len(b.Instrs); i++ {
		in := b.Instrs[i]
		switch x := in.(type) {
		case *ssa.If:
			cond := c.term(st, fr, x.Cond)
			switch cond.S {
			case "true":
				c.execBlock(st, fr, b.Succs[0], b)
			case "false":
				c.execBlock(st, fr, b.Succs[1], b)
			default:
				st2 := st.clone()
				st.assume(cond)
				c.execBlock(st, fr, b.Succs[0], b)
				st2.assume(not(cond))
				c.execBlock(st2, fr, b.Succs[1], b)
			}
			return
		case *ssa.Jump:
			c.execBlock(st, fr, b.Succs[0], b)
			return
		case *ssa.Return:
			var res []Val
			for _, r := range x.Results {
				res = append(res, c.get(st, fr, r))
			}
			fr.onReturn(st, res)
			return
		case *ssa.Panic:
			mp := fr.fc != nil && fr.fc.MayPanic
			if !mp {
				c.oblige(st, fr, "panic", "explicit", "", x.Pos(), tFalse, nil, "")
			}
			c.endPath()
			return
		case *ssa.RunDefers:
			ds := st.defers[fr]
			st.defers[fr] = nil
			i2 := i
			c.runDefers(st, fr, ds, func(st2 *State) {
				c.execInstrs(st2, fr, b, i2+1)
			})
			return
		case *ssa.Call:
			i2 := i
			c.doCall(st, fr, &x.Call, x, func(st2 *State, res Val) {
				if res != nil {
					st2.regs[x] = res
				}
				c.execInstrs(st2, fr, b, i2+1)
			})
			return
		default:
			c.step(st, fr, in)
		}
	}
}

func (c *Ctx) runDefers(st *State, fr *Frame, ds []deferred, k func(*State)) {
	if len(ds) == 0 {
		k(st)
		return
	}
	d := ds[len(ds)-1]
	rest := ds[:len(ds)-1]
	c.doCallVals(st, fr, d.call, d.pos, d.fn, d.args, func(st2 *State, _ Val) {
		c.runDefers(st2, fr, rest, k)
	})
}

// step executes a non-control instruction
func (c *Ctx) step(st *State, fr *Frame, in ssa.Instruction) {
	switch x := in.(type) {
	case *ssa.DebugRef:
	case *ssa.Alloc:
		et := deref(x.Type())
		var und types.Type = et.Underlying()
		switch u := und.(type) {
		case *types.Struct:
			_ = u
			ref := c.allocRef(st, "new_"+shortTypeName(et))
			ref.GoT = x.Type()
			c.zeroInitStruct(st, ref, et, 0)
			st.regs[x] = ref
		case *types.Array:
			so := mustSort(et)
			arr := c.fresh("arr", so)
			st.assume(eq(lenOf(arr), mkInt(u.Len())))
			z := c.zeroOf(u.Elem())
			if u.Len() <= 32 {
				for k := int64(0); k < u.Len(); k++ {
					st.assume(eq(atOf(arr, mkInt(k)), z))
				}
			} else {
				st.assume(mk(SBool, "(forall ((t Int)) (! (= %s %s) :pattern (%s)))", atOf(arr, Term{S: "t"}).S, z.S, atOf(arr, Term{S: "t"}).S))
			}
			st.fresh[arr.S] = true
			a := &Addr{Kind: aCell, Key: x, Elem: et}
			st.cells[x] = arr
			st.regs[x] = a
		default:
			a := &Addr{Kind: aCell, Key: x, Elem: et}
			delete(st.cells, x)
			st.regs[x] = a
		}
	case *ssa.Store:
		av := c.get(st, fr, x.Addr)
		a, ok := av.(*Addr)
		if !ok {
			// store of a whole struct through a struct reference
			if at, isT := av.(Term); isT {
				c.storeStruct(st, fr, at, x.Val, deref(x.Addr.Type()))
				return
			}
			unsupp("store to non-address %T", av)
		}
		c.store(st, fr, a, c.get(st, fr, x.Val), x.Pos())
	case *ssa.UnOp:
		c.unop(st, fr, x)
	case *ssa.BinOp:
		st.regs[x] = c.binop(st, fr, x)
	case *ssa.ChangeType:
		v := c.get(st, fr, x.X)
		if t, ok := v.(Term); ok {
			t.GoT = x.Type()
			v = t
		}
		st.regs[x] = v
	case *ssa.ChangeInterface:
		st.regs[x] = c.get(st, fr, x.X)
	case *ssa.Convert:
		st.regs[x] = c.convert(st, fr, x)
	case *ssa.MakeInterface:
		st.regs[x] = c.makeIface(st, fr, x.X, x.Type())
	case *ssa.TypeAssert:
		c.typeAssert(st, fr, x)
	case *ssa.Extract:
		tv := c.get(st, fr, x.Tuple)
		tu, ok := tv.(Tuple)
		if !ok {
			unsupp("extract from non-tuple")
		}
		st.regs[x] = tu[x.Index]
		if src, ok2 := x.Tuple.(ssa.Value); ok2 {
			_ = src
		}
	case *ssa.FieldAddr:
		base := c.term(st, fr, x.X)
		c.derefCheck(st, fr, base, x.Pos(), "field")
		fi := c.fieldByIndex(x.X.Type(), x.Field)
		if isRepoStruct(fi.GoT) {
			st.regs[x] = c.loadField(st, base, fi)
		} else {
			st.regs[x] = &Addr{Kind: aField, Ref: base, HKey: fi.Key, Elem: fi.GoT}
		}
	case *ssa.Field:
		// field of a struct value: struct values are references to (immutable snapshot) objects
		base := c.term(st, fr, x.X)
		fi := c.fieldByIndex(x.X.Type(), x.Field)
		st.regs[x] = c.loadField(st, base, fi)
	case *ssa.IndexAddr:
		c.indexAddr(st, fr, x)
	case *ssa.Index:
		seq := c.term(st, fr, x.X)
		idx := c.term(st, fr, x.Index)
		c.oblige(st, fr, "index", c.nameOfValue(x.X), "", x.Pos(), and(mk(SBool, "(<= 0 %s)", idx.S), mk(SBool, "(< %s %s)", idx.S, lenOf(seq).S)), nil, "")
		v := atOf(seq, idx)
		v.GoT = x.Type()
		st.assume(intRange(x.Type(), v))
		st.regs[x] = v
	case *ssa.Lookup:
		c.lookup(st, fr, x)
	case *ssa.Slice:
		c.slice(st, fr, x)
	case *ssa.MakeSlice:
		so := mustSort(x.Type())
		n := c.term(st, fr, x.Len)
		s := c.fresh("mk", so)
		s.GoT = x.Type()
		c.oblige(st, fr, "makeslice", "len", "", x.Pos(), mk(SBool, "(<= 0 %s)", n.S), nil, "")
		st.assume(eq(lenOf(s), n))
		z := c.zeroOf(elemType(x.Type()))
		st.assume(mk(SBool, "(forall ((t Int)) (! (= %s %s) :pattern (%s)))", atOf(s, Term{S: "t"}).S, z.S, atOf(s, Term{S: "t"}).S))
		st.fresh[s.S] = true
		st.regs[x] = s
	case *ssa.MakeMap:
		r := c.allocRef(st, "map")
		r.GoT = x.Type()
		mi := c.mapInfo(x.Type())
		hk := c.heapCur(st, mi.KeyHas, mi.HasSort)
		st.heap[mi.KeyHas] = Term{S: fmt.Sprintf("(store %s %s ((as const (Array %s Bool)) false))", hk.S, r.S, mi.K), Sort: hk.Sort}
		st.regs[x] = r
	case *ssa.MakeChan:
		r := c.allocRef(st, "chan")
		r.GoT = x.Type()
		c.chanInit(st, r)
		st.regs[x] = r
	case *ssa.MakeClosure:
		cl := &Closure{Fn: x.Fn.(*ssa.Function)}
		for _, bnd := range x.Bindings {
			cl.Bind = append(cl.Bind, c.get(st, fr, bnd))
		}
		cl.Ref = c.allocRef(st, "closure")
		c.V.closureOf[cl.Ref.S] = cl
		// what a contract can say about a function value: which function literal it is and what it captured
		// (closure(x, "KEY"), bound(x, i) in the contract language); only reference-like captures are recorded
		c.declare("(declare-fun closfn (Int) Int)")
		c.declare("(declare-fun closbind (Int Int) Int)")
		st.assume(mk(SBool, "(= (closfn %s) %d)", cl.Ref.S, c.V.typeID("fn:"+c.V.fnKey(cl.Fn))))
		for i, b := range cl.Bind {
			switch bv := b.(type) {
			case Term:
				if bv.Sort == SInt {
					st.assume(mk(SBool, "(= (closbind %s %d) %s)", cl.Ref.S, i, bv.S))
				}
			case *Addr:
				// a captured variable (NaiveForm captures the variable, not its value): what it holds when the function
				// value is made - the address it denotes when the engine tracks a place, else a reference
				if bv.Kind != aCell {
					break
				}
				switch cv := c.loadCell(st, bv).(type) {
				case Term:
					if cv.Sort == SInt {
						st.assume(mk(SBool, "(= (closbind %s %d) %s)", cl.Ref.S, i, cv.S))
					}
				case *Addr:
					if cv.Kind == aField || cv.Kind == aCell {
						st.assume(mk(SBool, "(= (closbind %s %d) %s)", cl.Ref.S, i, c.addrIdentity(cv).S))
					}
				}
			}
		}
		st.regs[x] = cl
	case *ssa.MapUpdate:
		c.mapUpdate(st, fr, x)
	case *ssa.Range:
		c.rangeInit(st, fr, x)
	case *ssa.Next:
		c.rangeNext(st, fr, x)
	case *ssa.Select:
		c.selectInstr(st, fr, x)
	case *ssa.Send:
		c.chanSend(st, fr, c.term(st, fr, x.Chan), c.get(st, fr, x.X), x.Chan, x.Pos())
	case *ssa.Go:
		c.goStmt(st, fr, x)
	case *ssa.Defer:
		d := deferred{call: &x.Call, pos: x}
		for _, a := range x.Call.Args {
			d.args = append(d.args, c.get(st, fr, a))
		}
		if !x.Call.IsInvoke() {
			d.fn = c.get(st, fr, x.Call.Value)
		} else {
			d.fn = c.get(st, fr, x.Call.Value)
		}
		st.defers[fr] = append(st.defers[fr], d)
	default:
		unsupp("instruction %T (%s)", in, in)
	}
}

func (c *Ctx) storeStruct(st *State, fr *Frame, dst Term, src ssa.Value, t types.Type) {
	// *dst = src (whole struct): copy field by field from the source object reference
	sv := c.term(st, fr, src)
	s, owner := structOf(t)
	if s == nil {
		unsupp("whole-value store through reference of type %s", t)
	}
	for i := 0; i < s.NumFields(); i++ {
		fi := c.fieldByIndex(owner, i)
		if isRepoStruct(fi.GoT) {
			continue
		}
		if sv.S == "0" {
			c.storeField(st, dst, fi, c.zeroOf(fi.GoT))
		} else {
			c.storeField(st, dst, fi, c.loadField(st, sv, fi))
		}
	}
}

func (c *Ctx) nameOfValue(v ssa.Value) string {
	// a stable, human-readable name for the operand of a safety obligation
	switch x := v.(type) {
	case *ssa.UnOp:
		if x.Op == token.MUL {
			switch a := x.X.(type) {
			case *ssa.Alloc:
				return a.Comment
			case *ssa.FieldAddr:
				s, _ := structOf(a.X.Type())
				if s != nil {
					return s.Field(a.Field).Name()
				}
			case *ssa.FreeVar:
				return a.Name()
			case *ssa.IndexAddr:
				return c.nameOfValue(a.X) + "[]"
			}
		}
	case *ssa.Parameter:
		return x.Name()
	case *ssa.Slice:
		return c.nameOfValue(x.X) + "[:]"
	case *ssa.Call:
		if f := x.Call.StaticCallee(); f != nil {
			return f.Name() + "()"
		}
	case *ssa.Alloc:
		return x.Comment
	case *ssa.Extract:
		return c.nameOfValue(x.Tuple) + fmt.Sprintf(".%d", x.Index)
	}
	return "expr"
}

func (c *Ctx) derefCheck(st *State, fr *Frame, ref Term, pos token.Pos, what string) {
	if ref.S == "0" {
		c.oblige(st, fr, "nilderef", what, "", pos, tFalse, nil, "")
		return
	}
	nn := mk(SBool, "(not (= %s 0))", ref.S)
	if fr.fc != nil && fr.fc.NilCheck {
		c.oblige(st, fr, "nilderef", what, "", pos, nn, nil, "")
	} else {
		c.V.assumptions["A-NONNIL: dereferenced pointers are assumed non-nil (nil-dereference obligations are generated only for functions marked `check nilderef`)"] = true
		st.assume(nn)
	}
}

func (c *Ctx) unop(st *State, fr *Frame, x *ssa.UnOp) {
	switch x.Op {
	case token.MUL:
		av := c.get(st, fr, x.X)
		switch a := av.(type) {
		case *Addr:
			v := c.load(st, fr, a)
			st.regs[x] = v
			if t, ok := v.(Term); ok && t.Sort.isSeq() {
				st.origin[x] = a
			}
		case Term:
			// load of a whole struct: the struct value is represented by a snapshot reference
			if isRepoStruct(deref(x.X.Type())) {
				c.derefCheck(st, fr, a, x.Pos(), "struct")
				snap := c.allocRef(st, "snap")
				snap.GoT = types.NewPointer(x.Type())
				s, owner := structOf(x.Type())
				for i := 0; i < s.NumFields(); i++ {
					fi := c.fieldByIndex(owner, i)
					if isRepoStruct(fi.GoT) {
						continue
					}
					c.storeField(st, snap, fi, c.loadField(st, a, fi))
				}
				st.regs[x] = snap
				return
			}
			// pointer to a non-struct value held as a first-class reference: its pointee lives in a per-type heap map
			pt := deref(x.X.Type())
			if so, ok := sortOf(pt); ok && so != SNone {
				key := "D_" + shortTypeName(pt)
				c.V.heapKeys[key] = heapKeyInfo{Owner: typeKey(pt), Field: "<pointee>", Sort: so}
				c.derefCheck(st, fr, a, x.Pos(), "pointer")
				h := c.heapCur(st, key, arrSort(so))
				v := sel(h, a, so)
				v.GoT = pt
				st.regs[x] = v
				return
			}
			unsupp("load through first-class pointer of type %s", x.X.Type())
		default:
			unsupp("load from %T", av)
		}
	case token.NOT:
		st.regs[x] = not(c.term(st, fr, x.X))
	case token.SUB:
		t := c.term(st, fr, x.X)
		r := mk(SInt, "(- %s)", t.S)
		r.GoT = x.Type()
		st.regs[x] = r
	case token.ARROW:
		st.regs[x] = c.chanRecv(st, fr, c.term(st, fr, x.X), x.X, x.CommaOk, x.Type(), x.Pos())
	case token.XOR:
		t := c.term(st, fr, x.X)
		c.declare("(declare-fun bitnot (Int) Int)")
		st.regs[x] = mk(SInt, "(bitnot %s)", t.S)
	default:
		unsupp("unary op %s", x.Op)
	}
}

func (c *Ctx) binop(st *State, fr *Frame, x *ssa.BinOp) Term {
	a := c.term(st, fr, x.X)
	b := c.term(st, fr, x.Y)
	t := x.X.Type()
	res := func(s Sort, f string, args ...interface{}) Term {
		r := mk(s, f, args...)
		r.GoT = x.Type()
		return r
	}
	if isFloat(t) {
		switch x.Op {
		case token.EQL:
			return eq(a, b)
		case token.NEQ:
			return not(eq(a, b))
		}
		op := "flt_" + map[token.Token]string{token.ADD: "add", token.SUB: "sub", token.MUL: "mul", token.QUO: "div", token.LSS: "lt", token.LEQ: "le", token.GTR: "gt", token.GEQ: "ge"}[x.Op]
		rs := SInt
		if x.Op == token.LSS || x.Op == token.LEQ || x.Op == token.GTR || x.Op == token.GEQ {
			rs = SBool
		}
		c.declare(fmt.Sprintf("(declare-fun %s (Int Int) %s)", op, rs))
		return res(rs, "(%s %s %s)", op, a.S, b.S)
	}
	switch x.Op {
	case token.ADD:
		if a.Sort == SBytes {
			r := catOf(a, b)
			r.GoT = x.Type()
			return r
		}
		r := res(SInt, "(+ %s %s)", a.S, b.S)
		c.overflowCheck(st, fr, r, x)
		return r
	case token.SUB:
		r := res(SInt, "(- %s %s)", a.S, b.S)
		c.overflowCheck(st, fr, r, x)
		return r
	case token.MUL:
		r := res(SInt, "(* %s %s)", a.S, b.S)
		c.overflowCheck(st, fr, r, x)
		return r
	case token.QUO:
		c.oblige(st, fr, "div", "zero", "", x.Pos(), mk(SBool, "(not (= %s 0))", b.S), nil, "")
		return res(SInt, "(godiv %s %s)", a.S, b.S)
	case token.REM:
		c.oblige(st, fr, "div", "zero", "", x.Pos(), mk(SBool, "(not (= %s 0))", b.S), nil, "")
		return res(SInt, "(gomod %s %s)", a.S, b.S)
	case token.EQL:
		return c.goEq(a, b, t)
	case token.NEQ:
		return not(c.goEq(a, b, t))
	case token.LSS, token.LEQ, token.GTR, token.GEQ:
		if a.Sort == SBytes {
			c.declare("(declare-fun strlt (Bytes Bytes) Bool)")
			switch x.Op {
			case token.LSS:
				return mk(SBool, "(strlt %s %s)", a.S, b.S)
			case token.GTR:
				return mk(SBool, "(strlt %s %s)", b.S, a.S)
			case token.LEQ:
				return not(mk(SBool, "(strlt %s %s)", b.S, a.S))
			default:
				return not(mk(SBool, "(strlt %s %s)", a.S, b.S))
			}
		}
		op := map[token.Token]string{token.LSS: "<", token.LEQ: "<=", token.GTR: ">", token.GEQ: ">="}[x.Op]
		return mk(SBool, "(%s %s %s)", op, a.S, b.S)
	case token.LAND:
		return and(a, b)
	case token.LOR:
		return or(a, b)
	case token.AND, token.OR, token.XOR, token.SHL, token.SHR, token.AND_NOT:
		if a.Sort == SBool {
			switch x.Op {
			case token.AND:
				return and(a, b)
			case token.OR:
				return or(a, b)
			}
		}
		op := "bit_" + map[token.Token]string{token.AND: "and", token.OR: "or", token.XOR: "xor", token.SHL: "shl", token.SHR: "shr", token.AND_NOT: "andnot"}[x.Op]
		c.declare(fmt.Sprintf("(declare-fun %s (Int Int) Int)", op))
		r := res(SInt, "(%s %s %s)", op, a.S, b.S)
		st.assume(intRange(x.Type(), r))
		return r
	}
	unsupp("binary op %s", x.Op)
	return Term{}
}

func (c *Ctx) overflowCheck(st *State, fr *Frame, r Term, x *ssa.BinOp) {
	if fr.fc != nil && fr.fc.Overflow {
		c.oblige(st, fr, "overflow", x.Op.String(), "", x.Pos(), intRange(x.Type(), r), nil, "")
	} else {
		c.V.assumptions["A-MATHINT: machine integer arithmetic is treated as mathematical (overflow obligations are generated only for functions marked `check overflow`)"] = true
	}
}

// goEq: Go == at the given static type
func (c *Ctx) goEq(a, b Term, t types.Type) Term {
	if a.Sort.isSeq() || b.Sort.isSeq() {
		// strings: equality of values; comparison with "" / nil is a length test
		if a.Sort != b.Sort {
			if a.Sort == SInt {
				a = emptyOf(b.Sort)
			} else if b.Sort == SInt {
				b = emptyOf(a.Sort)
			}
		}
		if b.S == emptyOf(b.Sort).S {
			return eq(lenOf(a), tZero)
		}
		if a.S == emptyOf(a.Sort).S {
			return eq(lenOf(b), tZero)
		}
		return eq(a, b)
	}
	return eq(a, b)
}

func (c *Ctx) convert(st *State, fr *Frame, x *ssa.Convert) Val {
	v := c.term(st, fr, x.X)
	from, to := x.X.Type(), x.Type()
	fs, ts := mustSort(from), mustSort(to)
	out := func(t Term) Term { t.GoT = to; return t }
	switch {
	case fs == SBytes && ts == SBytes:
		return out(v) // string <-> []byte: same abstract value (a copy)
	case fs == SInt && ts == SBytes:
		// string(byte/rune)
		c.declare("(declare-fun runestr (Int) Bytes)")
		c.declare("(assert (forall ((r Int)) (! (=> (and (<= 0 r) (< r 128)) (= (runestr r) (single_Y r))) :pattern ((runestr r)))))")
		return out(mk(SBytes, "(runestr %s)", v.S))
	case fs == SInt && ts == SInt:
		if isFloat(from) != isFloat(to) {
			c.declare("(declare-fun numconv (Int) Int)")
			r := mk(SInt, "(numconv %s)", v.S)
			st.assume(intRange(to, r))
			return out(r)
		}
		if isInteger(from) && isInteger(to) {
			fb, tb := from.Underlying().(*types.Basic), to.Underlying().(*types.Basic)
			if intFits(fb.Kind(), tb.Kind()) {
				return out(v)
			}
			// narrowing / sign change: value preserved when in range, otherwise unspecified-in-range
			r := c.fresh("conv", SInt)
			rg := intRange(to, r)
			st.assume(rg)
			st.assume(implies(intRange(to, v), eq(r, v)))
			return out(r)
		}
		return out(v)
	case fs == ts:
		return out(v)
	}
	unsupp("conversion %s -> %s", from, to)
	return nil
}

func intFits(from, to types.BasicKind) bool {
	rank := map[types.BasicKind][2]int{ // signed?, bits
		types.Int8: {1, 8}, types.Int16: {1, 16}, types.Int32: {1, 32}, types.Int64: {1, 64}, types.Int: {1, 64},
		types.Uint8: {0, 8}, types.Uint16: {0, 16}, types.Uint32: {0, 32}, types.Uint64: {0, 64}, types.Uint: {0, 64}, types.Uintptr: {0, 64},
		types.UntypedInt: {1, 64}, types.UntypedRune: {1, 32},
	}
	f, ok1 := rank[from]
	t, ok2 := rank[to]
	if !ok1 || !ok2 {
		return false
	}
	if f[0] == t[0] {
		return f[1] <= t[1]
	}
	if f[0] == 0 && t[0] == 1 {
		return f[1] < t[1]
	}
	return false
}

func (c *Ctx) makeIface(st *State, fr *Frame, xv ssa.Value, ifaceT types.Type) Term {
	v := c.get(st, fr, xv)
	t := xv.Type()
	tid := c.V.typeIDOf(t)
	var payload Term
	switch vv := v.(type) {
	case Term:
		switch vv.Sort {
		case SInt:
			payload = vv
		case SBool:
			payload = mk(SInt, "(inj_Bool %s)", vv.S)
		case SBytes:
			payload = mk(SInt, "(inj_Y %s)", vv.S)
		case SSeqB:
			payload = mk(SInt, "(inj_B %s)", vv.S)
		case SSeqI:
			payload = mk(SInt, "(inj_I %s)", vv.S)
		}
	default:
		payload = c.valAsTerm(v)
	}
	r := mk(SInt, "(box %d %s)", tid, payload.S)
	r.GoT = ifaceT
	return r
}

func (c *Ctx) unbox(x Term, t types.Type) Term {
	s := mustSort(t)
	var r Term
	switch s {
	case SInt:
		r = mk(SInt, "(payload %s)", x.S)
	case SBool:
		r = mk(SBool, "(prj_Bool (payload %s))", x.S)
	case SBytes:
		r = mk(SBytes, "(prj_Y (payload %s))", x.S)
	case SSeqB:
		r = mk(SSeqB, "(prj_B (payload %s))", x.S)
	case SSeqI:
		r = mk(SSeqI, "(prj_I (payload %s))", x.S)
	}
	r.GoT = t
	return r
}

func (c *Ctx) typeAssert(st *State, fr *Frame, x *ssa.TypeAssert) {
	v := c.term(st, fr, x.X)
	at := x.AssertedType
	var cond, val Term
	if isInterface(at) {
		c.declare("(declare-fun implements (Int Int) Bool)")
		cond = and(mk(SBool, "(not (= %s 0))", v.S), mk(SBool, "(implements (dyntype %s) %d)", v.S, c.V.typeID(typeKey(at))))
		if types.Identical(at.Underlying(), types.NewInterfaceType(nil, nil)) {
			cond = mk(SBool, "(not (= %s 0))", v.S)
		}
		val = v
		val.GoT = at
	} else {
		cond = mk(SBool, "(= (dyntype %s) %d)", v.S, c.V.typeID(typeKey(at)))
		val = c.unbox(v, at)
	}
	if x.CommaOk {
		zero := c.zeroOf(at)
		rv := ite(cond, val, zero)
		rv.GoT = at
		st.regs[x] = Tuple{rv, cond}
		return
	}
	c.oblige(st, fr, "typeassert", shortTypeName(at), "", x.Pos(), cond, nil, "")
	st.regs[x] = val
}

func (c *Ctx) indexAddr(st *State, fr *Frame, x *ssa.IndexAddr) {
	xv := c.get(st, fr, x.X)
	idx := c.term(st, fr, x.Index)
	var seq Term
	var origin *Addr
	et := elemType(x.X.Type())
	isArray := false
	switch a := xv.(type) {
	case *Addr: // pointer to array
		seq = c.load(st, fr, a).(Term)
		origin = a
		isArray = true
	case Term:
		seq = a
		if o, ok := st.origin[x.X]; ok {
			origin = o
		}
	default:
		unsupp("indexaddr on %T", xv)
	}
	if !(isArray && isConstIndexInRange(x)) {
		c.oblige(st, fr, "index", c.nameOfValue(x.X), "", x.Pos(), and(mk(SBool, "(<= 0 %s)", idx.S), mk(SBool, "(< %s %s)", idx.S, lenOf(seq).S)), nil, "")
	}
	st.regs[x] = &Addr{Kind: aElem, Origin: origin, Seq: seq, Idx: idx, Elem: et}
}

func isConstIndexInRange(x *ssa.IndexAddr) bool {
	k, ok := x.Index.(*ssa.Const)
	if !ok {
		return false
	}
	p, ok := x.X.Type().Underlying().(*types.Pointer)
	if !ok {
		return false
	}
	arr, ok := p.Elem().Underlying().(*types.Array)
	if !ok {
		return false
	}
	v, ok := constant.Int64Val(k.Value)
	return ok && v >= 0 && v < arr.Len()
}

func (c *Ctx) slice(st *State, fr *Frame, x *ssa.Slice) {
	xv := c.get(st, fr, x.X)
	var seq Term
	isArr := false
	fresh := false
	switch a := xv.(type) {
	case *Addr:
		seq = c.load(st, fr, a).(Term)
		isArr = true
		fresh = st.fresh[seq.S]
	case Term:
		seq = a
	default:
		unsupp("slice of %T", xv)
	}
	lo := tZero
	if x.Low != nil {
		lo = c.term(st, fr, x.Low)
	}
	hi := lenOf(seq)
	if x.High != nil {
		hi = c.term(st, fr, x.High)
	}
	var bound Term
	if isArr || isString(x.X.Type()) {
		bound = lenOf(seq)
	} else {
		bound = capOf(seq)
	}
	whole := x.Low == nil && x.High == nil
	if !whole {
		goal := and(mk(SBool, "(<= 0 %s)", lo.S), mk(SBool, "(<= %s %s)", lo.S, hi.S), mk(SBool, "(<= %s %s)", hi.S, bound.S))
		if x.High == nil {
			goal = and(mk(SBool, "(<= 0 %s)", lo.S), mk(SBool, "(<= %s %s)", lo.S, lenOf(seq).S))
		}
		c.oblige(st, fr, "slice", c.nameOfValue(x.X), "", x.Pos(), goal, nil, "")
	}
	var r Term
	if whole {
		r = seq
	} else {
		r = sliceOf(seq, lo, hi)
	}
	r.GoT = x.Type()
	if fresh && whole {
		st.fresh[r.S] = true
	}
	if isArr && whole && fresh {
		// composite literal of at most 8 elements, all set at literal indices: use the canonical
		// form single(e0) ++ single(e1) ++ ... (the same term a contract writes as bytes(..)/strs(..)/refs(..))
		if p, ok := x.X.Type().Underlying().(*types.Pointer); ok {
			if arr, ok := p.Elem().Underlying().(*types.Array); ok && arr.Len() >= 1 && arr.Len() <= 8 {
				canon := emptyOf(seq.Sort)
				all := true
				for k := int64(0); k < arr.Len(); k++ {
					e, ok := litElem(seq, fmt.Sprint(k))
					if !ok {
						all = false
						break
					}
					canon = catOf(canon, singleOf(seq.Sort, e))
				}
				if all {
					canon.GoT = x.Type()
					st.assume(eq(canon, seq))
					r = canon
				}
			}
		}
	}
	if isArr && whole && fresh {
		if p, ok := x.X.Type().Underlying().(*types.Pointer); ok {
			if arr, ok := p.Elem().Underlying().(*types.Array); ok && arr.Len() >= 1 && arr.Len() <= 64 {
				var elems []Term
				for k := int64(0); k < arr.Len(); k++ {
					e, ok := litElem(seq, fmt.Sprint(k))
					if !ok {
						elems = nil
						break
					}
					elems = append(elems, e)
				}
				if elems != nil {
					seqLit[r.S] = elems
				}
			}
		}
	}
	if isArr && whole {
		// array/slice literal: name every element so that quantified facts about the literal
		// (e.g. a callee's "exists i" postcondition) can be instantiated on it
		if p, ok := x.X.Type().Underlying().(*types.Pointer); ok {
			if arr, ok := p.Elem().Underlying().(*types.Array); ok && arr.Len() <= 16 {
				for k := int64(0); k < arr.Len(); k++ {
					st.assume(mk(SBool, "(touch_%s %s)", r.Sort.elem(), atOf(r, mkInt(k)).S))
				}
			}
		}
	}
	st.regs[x] = r
}

func (c *Ctx) lookup(st *State, fr *Frame, x *ssa.Lookup) {
	if _, isMap := x.X.Type().Underlying().(*types.Map); isMap {
		c.mapLookup(st, fr, x)
		return
	}
	seq := c.term(st, fr, x.X)
	idx := c.term(st, fr, x.Index)
	c.oblige(st, fr, "index", c.nameOfValue(x.X), "", x.Pos(), and(mk(SBool, "(<= 0 %s)", idx.S), mk(SBool, "(< %s %s)", idx.S, lenOf(seq).S)), nil, "")
	v := atOf(seq, idx)
	v.GoT = x.Type()
	st.assume(intRange(x.Type(), v))
	st.regs[x] = v
}

var _ = strings.Join
