package main

// Compiles a contract clause to a Go boolean expression for the replay test. Values are handled dynamically
// (interface{} + the r* helpers of the replay runtime); identifiers, field accesses and indexing stay static Go.
// Anything without an executable counterpart makes the compilation fail (no oracle, no replay).

import (
	"fmt"
	"go/types"
	"strings"

	"golang.org/x/tools/go/ssa"
)

type oracleCompiler struct {
	v     *Verifier
	plan  *replayPlan
	fc    *FuncContract
	f     *ssa.Function
	pre   []string // statements evaluated before the call (old values)
	nold  int
	why   string
	bound map[string]string // bound variable -> Go name
	subst []map[string]Expr // spec-function parameter substitutions
	inOld bool
}

func (o *oracleCompiler) fail(f string, a ...interface{}) (string, bool) {
	if o.why == "" {
		o.why = fmt.Sprintf(f, a...)
	}
	return "", false
}

func (o *oracleCompiler) lookupSubst(name string) (Expr, bool) {
	for i := len(o.subst) - 1; i >= 0; i-- {
		if e, ok := o.subst[i][name]; ok {
			return e, true
		}
	}
	return nil, false
}

// static: a Go expression with its static type (identifiers, fields, result.N), or ok=false
func (o *oracleCompiler) static(e Expr) (string, bool) {
	switch n := e.(type) {
	case EIdent:
		if g, ok := o.bound[n.Name]; ok {
			return g, true
		}
		if se, ok := o.lookupSubst(n.Name); ok {
			saved := o.subst
			o.subst = o.subst[:len(o.subst)-1]
			r, ok2 := o.static(se)
			o.subst = saved
			return r, ok2
		}
		if o.fc != nil {
			for _, l := range o.fc.Lets {
				if l.Name == n.Name {
					return o.static(l.E)
				}
			}
		}
		if g, ok := o.plan.argNames[n.Name]; ok {
			return g, true
		}
		if n.Name == "result" && o.f.Signature.Results().Len() == 1 {
			return "r0", true
		}
		for i := 0; i < o.f.Signature.Results().Len(); i++ {
			if o.f.Signature.Results().At(i).Name() == n.Name {
				return fmt.Sprintf("r%d", i), true
			}
		}
		if obj := o.plan.pkg.Scope().Lookup(n.Name); obj != nil {
			switch obj.(type) {
			case *types.Const, *types.Var:
				return n.Name, true
			}
		}
		return "", false
	case EField:
		if id, ok := n.X.(EIdent); ok {
			if id.Name == "result" {
				var k int
				if _, err := fmt.Sscanf(n.Name, "%d", &k); err == nil {
					return fmt.Sprintf("r%d", k), true
				}
			}
			if _, isArg := o.plan.argNames[id.Name]; !isArg {
				if _, isB := o.bound[id.Name]; !isB {
					if _, isS := o.lookupSubst(id.Name); !isS {
						// package qualified name
						for _, imp := range o.plan.pkg.Imports() {
							if imp.Name() == id.Name {
								o.plan.imports[imp.Path()] = true
								return id.Name + "." + n.Name, true
							}
						}
					}
				}
			}
		}
		if c, ok := n.X.(ECall); ok && c.Fn == "as" && len(c.Args) == 2 {
			x, ok1 := o.static(c.Args[0])
			ts, ok2 := c.Args[1].(EStr)
			if ok1 && ok2 {
				return fmt.Sprintf("%s.(%s).%s", x, o.localType(ts.V), n.Name), true
			}
		}
		x, ok := o.static(n.X)
		if !ok {
			return "", false
		}
		return x + "." + n.Name, true
	case EIndex:
		x, ok := o.static(n.X)
		if !ok {
			return "", false
		}
		i, ok := o.value(n.I)
		if !ok {
			return "", false
		}
		return fmt.Sprintf("%s[rInt(%s)]", x, i), true
	}
	return "", false
}

func (o *oracleCompiler) localType(t string) string {
	return strings.Replace(t, o.plan.pkg.Name()+".", "", 1)
}

// value: Go expression of type interface{}
func (o *oracleCompiler) value(e Expr) (string, bool) {
	if s, ok := o.static(e); ok {
		return "interface{}(" + s + ")", true
	}
	switch n := e.(type) {
	case EIdent:
		if se, ok := o.lookupSubst(n.Name); ok {
			saved := o.subst
			o.subst = o.subst[:len(o.subst)-1]
			r, ok2 := o.value(se)
			o.subst = saved
			return r, ok2
		}
		if o.fc != nil {
			for _, l := range o.fc.Lets {
				if l.Name == n.Name {
					return o.value(l.E)
				}
			}
		}
		return o.fail("name %s", n.Name)
	case EInt:
		return "int64(" + n.V + ")", true
	case EStr:
		return fmt.Sprintf("[]byte(%q)", n.V), true
	case EBool:
		return fmt.Sprint(n.V), true
	case ENil:
		return "nil", true
	case EOld:
		if o.inOld {
			return o.value(n.X)
		}
		o.inOld = true
		x, ok := o.value(n.X)
		o.inOld = false
		if !ok {
			return "", false
		}
		o.nold++
		name := fmt.Sprintf("old%d", o.nold)
		o.pre = append(o.pre, fmt.Sprintf("%s := rCopy(%s)", name, x))
		return name, true
	case EUnary:
		if n.Op == "-" {
			x, ok := o.value(n.X)
			if !ok {
				return "", false
			}
			return "(-rInt(" + x + "))", true
		}
		b, ok := o.boolExpr(e)
		return b, ok
	case ECond:
		c, ok1 := o.boolExpr(n.C)
		a, ok2 := o.value(n.A)
		b, ok3 := o.value(n.B)
		if !ok1 || !ok2 || !ok3 {
			return "", false
		}
		return fmt.Sprintf("rIte(%s, func() interface{} { return %s }, func() interface{} { return %s })", c, a, b), true
	case EBinary:
		switch n.Op {
		case "+", "++":
			a, ok1 := o.value(n.L)
			b, ok2 := o.value(n.R)
			if !ok1 || !ok2 {
				return "", false
			}
			return fmt.Sprintf("rAdd(%s, %s)", a, b), true
		case "-", "*":
			a, ok1 := o.value(n.L)
			b, ok2 := o.value(n.R)
			if !ok1 || !ok2 {
				return "", false
			}
			return fmt.Sprintf("(rInt(%s) %s rInt(%s))", a, n.Op, b), true
		}
		return o.boolExpr(e)
	case EIndex:
		x, ok1 := o.value(n.X)
		i, ok2 := o.value(n.I)
		if !ok1 || !ok2 {
			return "", false
		}
		return fmt.Sprintf("rAt(%s, rInt(%s))", x, i), true
	case ESlice:
		x, ok := o.value(n.X)
		if !ok {
			return "", false
		}
		lo, hi := "int64(0)", "rLen("+x+")"
		if n.Lo != nil {
			l, ok := o.value(n.Lo)
			if !ok {
				return "", false
			}
			lo = "rInt(" + l + ")"
		}
		if n.Hi != nil {
			h, ok := o.value(n.Hi)
			if !ok {
				return "", false
			}
			hi = "rInt(" + h + ")"
		}
		return fmt.Sprintf("rSlice(%s, %s, %s)", x, lo, hi), true
	case ECall:
		args := func() ([]string, bool) {
			var out []string
			for _, a := range n.Args {
				x, ok := o.value(a)
				if !ok {
					return nil, false
				}
				out = append(out, x)
			}
			return out, true
		}
		switch n.Fn {
		case "len":
			as, ok := args()
			if !ok {
				return "", false
			}
			return "rLen(" + as[0] + ")", true
		case "bytes":
			as, ok := args()
			if !ok {
				return "", false
			}
			return "rBytes(" + strings.Join(as, ", ") + ")", true
		case "strs", "ints", "refs":
			as, ok := args()
			if !ok {
				return "", false
			}
			return "rList(" + strings.Join(as, ", ") + ")", true
		case "str", "string", "b", "int":
			return o.value(n.Args[0])
		case "lower":
			as, ok := args()
			if !ok {
				return "", false
			}
			return "bytes.ToLower(rB(" + as[0] + "))", true
		case "trimSpace":
			as, ok := args()
			if !ok {
				return "", false
			}
			return "bytes.TrimSpace(rB(" + as[0] + "))", true
		case "trimPrefix", "trimSuffix":
			as, ok := args()
			if !ok {
				return "", false
			}
			fn := map[string]string{"trimPrefix": "TrimPrefix", "trimSuffix": "TrimSuffix"}[n.Fn]
			return fmt.Sprintf("bytes.%s(rB(%s), rB(%s))", fn, as[0], as[1]), true
		case "indexOf":
			as, ok := args()
			if !ok {
				return "", false
			}
			return fmt.Sprintf("int64(bytes.Index(rB(%s), rB(%s)))", as[0], as[1]), true
		case "concatAll":
			as, ok := args()
			if !ok {
				return "", false
			}
			return fmt.Sprintf("func() interface{} { out := []byte{}; l, _ := rNorm(%s).([]interface{}); for _, x := range l { out = append(out, rB(x)...) }; return out }()", as[0]), true
		case "ite":
			return o.value(ECond{n.Args[0], n.Args[1], n.Args[2]})
		}
		if sf, ok := o.v.specs.Specs[n.Fn]; ok && sf.Body != nil && sf.Ret != "bool" {
			return o.inlineSpec(sf, n.Args, false)
		}
		if sf, ok := o.v.specs.Specs[n.Fn]; ok && sf.Body != nil {
			return o.boolExpr(e)
		}
		return o.fail("function %s", n.Fn)
	}
	// boolean-valued expression used as a value
	if b, ok := o.boolExpr(e); ok {
		return b, true
	}
	return o.fail("expression %s", e)
}

func (o *oracleCompiler) inlineSpec(sf *SpecFunc, args []Expr, asBool bool) (string, bool) {
	m := map[string]Expr{}
	for i, p := range sf.Params {
		// arguments are substituted with the substitution environment in force at the call
		m[p.Name] = substExprEnv(args[i], o)
	}
	o.subst = append(o.subst, m)
	defer func() { o.subst = o.subst[:len(o.subst)-1] }()
	if asBool {
		return o.boolExpr(sf.Body)
	}
	return o.value(sf.Body)
}

// substExprEnv closes an argument expression over the current substitution by rewriting identifiers
func substExprEnv(e Expr, o *oracleCompiler) Expr {
	switch n := e.(type) {
	case EIdent:
		if se, ok := o.lookupSubst(n.Name); ok {
			return se
		}
		return n
	case EUnary:
		return EUnary{n.Op, substExprEnv(n.X, o)}
	case EBinary:
		return EBinary{n.Op, substExprEnv(n.L, o), substExprEnv(n.R, o)}
	case ECond:
		return ECond{substExprEnv(n.C, o), substExprEnv(n.A, o), substExprEnv(n.B, o)}
	case EField:
		return EField{substExprEnv(n.X, o), n.Name}
	case EIndex:
		return EIndex{substExprEnv(n.X, o), substExprEnv(n.I, o)}
	case ESlice:
		r := ESlice{X: substExprEnv(n.X, o)}
		if n.Lo != nil {
			r.Lo = substExprEnv(n.Lo, o)
		}
		if n.Hi != nil {
			r.Hi = substExprEnv(n.Hi, o)
		}
		return r
	case ECall:
		r := ECall{Fn: n.Fn}
		for _, a := range n.Args {
			r.Args = append(r.Args, substExprEnv(a, o))
		}
		return r
	case EOld:
		return EOld{substExprEnv(n.X, o)}
	}
	return e
}

// boolExpr: Go expression of type bool
func (o *oracleCompiler) boolExpr(e Expr) (string, bool) {
	switch n := e.(type) {
	case EBool:
		return fmt.Sprint(n.V), true
	case EUnary:
		if n.Op == "!" {
			x, ok := o.boolExpr(n.X)
			if !ok {
				return "", false
			}
			return "!(" + x + ")", true
		}
	case EBinary:
		switch n.Op {
		case "&&", "||":
			a, ok1 := o.boolExpr(n.L)
			b, ok2 := o.boolExpr(n.R)
			if !ok1 || !ok2 {
				return "", false
			}
			return fmt.Sprintf("(%s %s %s)", a, n.Op, b), true
		case "==>":
			a, ok1 := o.boolExpr(n.L)
			b, ok2 := o.boolExpr(n.R)
			if !ok1 || !ok2 {
				return "", false
			}
			return fmt.Sprintf("(!(%s) || %s)", a, b), true
		case "<==>":
			a, ok1 := o.boolExpr(n.L)
			b, ok2 := o.boolExpr(n.R)
			if !ok1 || !ok2 {
				return "", false
			}
			return fmt.Sprintf("((%s) == (%s))", a, b), true
		case "==", "!=", "===":
			a, ok1 := o.value(n.L)
			b, ok2 := o.value(n.R)
			if !ok1 || !ok2 {
				return "", false
			}
			if n.Op == "!=" {
				return fmt.Sprintf("!rEq(%s, %s)", a, b), true
			}
			return fmt.Sprintf("rEq(%s, %s)", a, b), true
		case "<", "<=", ">", ">=":
			a, ok1 := o.value(n.L)
			b, ok2 := o.value(n.R)
			if !ok1 || !ok2 {
				return "", false
			}
			return fmt.Sprintf("(rInt(%s) %s rInt(%s))", a, n.Op, b), true
		}
	case ECond:
		c, ok1 := o.boolExpr(n.C)
		a, ok2 := o.boolExpr(n.A)
		b, ok3 := o.boolExpr(n.B)
		if !ok1 || !ok2 || !ok3 {
			return "", false
		}
		return fmt.Sprintf("func() bool { if %s { return %s }; return %s }()", c, a, b), true
	case EQuant:
		return o.quant(n)
	case ECall:
		switch n.Fn {
		case "contains":
			a, ok1 := o.value(n.Args[0])
			b, ok2 := o.value(n.Args[1])
			if !ok1 || !ok2 {
				return "", false
			}
			return fmt.Sprintf("bytes.Contains(rB(%s), rB(%s))", a, b), true
		case "hasPrefix", "hasSuffix":
			a, ok1 := o.value(n.Args[0])
			b, ok2 := o.value(n.Args[1])
			if !ok1 || !ok2 {
				return "", false
			}
			fn := map[string]string{"hasPrefix": "HasPrefix", "hasSuffix": "HasSuffix"}[n.Fn]
			return fmt.Sprintf("bytes.%s(rB(%s), rB(%s))", fn, a, b), true
		case "reMatch":
			re, ok1 := o.static(n.Args[0])
			b, ok2 := o.value(n.Args[1])
			if !ok1 || !ok2 {
				return o.fail("reMatch on a non-static pattern")
			}
			return fmt.Sprintf("func() bool { re := %s; return re != nil && re.Match(rB(%s)) }()", re, b), true
		case "isErr":
			a, ok1 := o.value(n.Args[0])
			b, ok2 := o.value(n.Args[1])
			if !ok1 || !ok2 {
				return "", false
			}
			return fmt.Sprintf("errors.Is(rErr(%s), rErr(%s))", a, b), true
		case "typeis":
			a, ok1 := o.value(n.Args[0])
			ts, ok2 := n.Args[1].(EStr)
			if !ok1 || !ok2 {
				return "", false
			}
			return fmt.Sprintf("(fmt.Sprintf(\"%%T\", %s) == %q)", a, ts.V), true
		}
		if sf, ok := o.v.specs.Specs[n.Fn]; ok && sf.Body != nil {
			return o.inlineSpec(sf, n.Args, true)
		}
		return o.fail("predicate %s", n.Fn)
	case EIdent, EField, EIndex:
		s, ok := o.static(e)
		if ok {
			return "rBool(interface{}(" + s + "))", true
		}
		if id, isID := e.(EIdent); isID {
			if se, ok := o.lookupSubst(id.Name); ok {
				saved := o.subst
				o.subst = o.subst[:len(o.subst)-1]
				r, ok2 := o.boolExpr(se)
				o.subst = saved
				return r, ok2
			}
			if o.fc != nil {
				for _, l := range o.fc.Lets {
					if l.Name == id.Name {
						return o.boolExpr(l.E)
					}
				}
			}
		}
	}
	return o.fail("boolean expression %s", e)
}

// quant handles `forall/exists i int :: lo <= i && i < hi ==>/&& body` with bounds recognisable in the guard
func (o *oracleCompiler) quant(q EQuant) (string, bool) {
	if len(q.Vars) != 1 || q.Vars[0].Type != "int" {
		return o.fail("quantifier over %v", q.Vars)
	}
	v := q.Vars[0].Name
	var guard, body Expr
	if q.Forall {
		imp, ok := q.Body.(EBinary)
		if !ok || imp.Op != "==>" {
			return o.fail("forall without a range guard")
		}
		guard, body = imp.L, imp.R
	} else {
		guard, body = q.Body, EBool{true}
	}
	var conj []Expr
	var split func(e Expr)
	split = func(e Expr) {
		if b, ok := e.(EBinary); ok && b.Op == "&&" {
			split(b.L)
			split(b.R)
			return
		}
		conj = append(conj, e)
	}
	split(guard)
	var lo, hi string
	var rest []Expr
	for _, c := range conj {
		b, ok := c.(EBinary)
		if ok {
			if id, isID := b.R.(EIdent); isID && id.Name == v && (b.Op == "<=" || b.Op == "<") && lo == "" {
				x, ok := o.value(b.L)
				if ok {
					lo = "rInt(" + x + ")"
					if b.Op == "<" {
						lo += "+1"
					}
					continue
				}
			}
			if id, isID := b.L.(EIdent); isID && id.Name == v && (b.Op == "<=" || b.Op == "<") && hi == "" {
				x, ok := o.value(b.R)
				if ok {
					hi = "rInt(" + x + ")"
					if b.Op == "<=" {
						hi += "+1"
					}
					continue
				}
			}
		}
		rest = append(rest, c)
	}
	if lo == "" || hi == "" {
		return o.fail("quantifier without recognisable bounds")
	}
	if o.bound == nil {
		o.bound = map[string]string{}
	}
	gname := fmt.Sprintf("q_%s%d", v, len(o.bound))
	o.bound[v] = gname
	defer delete(o.bound, v)
	var inner Expr = body
	for i := len(rest) - 1; i >= 0; i-- {
		if q.Forall {
			inner = EBinary{"==>", rest[i], inner}
		} else {
			inner = EBinary{"&&", rest[i], inner}
		}
	}
	b, ok := o.boolExpr(inner)
	if !ok {
		return "", false
	}
	fn := "rExists"
	if q.Forall {
		fn = "rForall"
	}
	return fmt.Sprintf("%s(%s, %s, func(%s int64) bool { return %s })", fn, lo, hi, gname, b), true
}
