package main

import (
	"fmt"
	"go/token"
	"go/types"
	"sort"
	"strings"

	"golang.org/x/tools/go/ssa"
)

// baseRef names an object whose field a loop writes: the value v (a parameter, or a load of a variable the loop
// does not assign), optionally followed by a chain of field loads (x.Q.queue is base x, path [Q]).
type baseRef struct {
	V    ssa.Value
	Path []fieldInfo
}

func computeLoops(fn *ssa.Function) map[*ssa.BasicBlock]*loopInfo {
	loops := map[*ssa.BasicBlock]*loopInfo{}
	for _, b := range fn.Blocks {
		for _, s := range b.Succs {
			if s.Dominates(b) { // back edge b -> s
				li := loops[s]
				if li == nil {
					li = &loopInfo{head: s, body: map[*ssa.BasicBlock]bool{s: true}, fields: map[string][]baseRef{}, whole: map[string]bool{}}
					loops[s] = li
				}
				// natural loop: nodes that reach b without passing s
				var stack []*ssa.BasicBlock
				if !li.body[b] {
					li.body[b] = true
					stack = append(stack, b)
				}
				for len(stack) > 0 {
					n := stack[len(stack)-1]
					stack = stack[:len(stack)-1]
					for _, p := range n.Preds {
						if !li.body[p] {
							li.body[p] = true
							stack = append(stack, p)
						}
					}
				}
			}
		}
	}
	var heads []*ssa.BasicBlock
	for h := range loops {
		heads = append(heads, h)
	}
	// source order of the loop statement: position of the first positioned instruction of any
	// body block, minimum over the body; ties broken by block index
	posOf := func(li *loopInfo) token.Pos {
		best := token.Pos(1 << 40)
		for b := range li.body {
			for _, in := range b.Instrs {
				if p := in.Pos(); p.IsValid() && p < best {
					best = p
				}
			}
		}
		return best
	}
	sort.Slice(heads, func(i, j int) bool {
		pi, pj := posOf(loops[heads[i]]), posOf(loops[heads[j]])
		if pi != pj {
			return pi < pj
		}
		return heads[i].Index < heads[j].Index
	})
	for i, h := range heads {
		loops[h].ord = i + 1
	}
	return loops
}

// loopWrites computes what a loop may modify (cells and heap maps).
func (c *Ctx) loopWrites(fr *Frame, li *loopInfo) (cells map[interface{}]bool, fields map[string][]baseRef, whole map[string]bool, all bool) {
	cells = map[interface{}]bool{}
	fields = map[string][]baseRef{}
	whole = map[string]bool{}
	direct := map[interface{}]bool{}
	defer func() {
		c.directStores = direct
	}()
	addAddr := func(a ssa.Value) {
		switch x := a.(type) {
		case *ssa.Alloc:
			cells[x] = true
			direct[x] = true
		case *ssa.FreeVar:
			cells[x] = true
		case *ssa.Global:
			cells[x] = true
		case *ssa.FieldAddr:
			fi := c.fieldByIndex(x.X.Type(), x.Field)
			fields[fi.Key] = append(fields[fi.Key], baseRef{V: x.X})
		case *ssa.IndexAddr:
			// element store: the sequence lives where X was loaded from
			if u, ok := x.X.(*ssa.UnOp); ok && u.Op == token.MUL {
				switch o := u.X.(type) {
				case *ssa.Alloc:
					cells[o] = true
				case *ssa.FreeVar:
					cells[o] = true
				case *ssa.FieldAddr:
					fi := c.fieldByIndex(o.X.Type(), o.Field)
					fields[fi.Key] = append(fields[fi.Key], baseRef{V: o.X})
				}
			} else if al, ok := x.X.(*ssa.Alloc); ok {
				cells[al] = true
			}
		}
	}
	// ghosts assigned by `after call ... set` clauses (any call of the loop may be the one: over-approximated)
	if fr.fc != nil {
		sites := c.V.callSites(fr.fn)
		for _, cl := range fr.fc.Clauses {
			if cl.Kind != "aftercallset" {
				continue
			}
			// only when a call the clause is about sits inside this loop
			inLoop := false
			for b := range li.body {
				for _, in := range b.Instrs {
					for _, sname := range sites[in] {
						if cl.Site == sname || (strings.HasSuffix(cl.Site, "#*") && strings.HasPrefix(sname, strings.TrimSuffix(cl.Site, "*"))) {
							inLoop = true
						}
					}
				}
			}
			if inLoop {
				whole["G_"+cl.Label] = true
			}
		}
	}
	for b := range li.body {
		for _, in := range b.Instrs {
			switch x := in.(type) {
			case *ssa.Store:
				addAddr(x.Addr)
			case *ssa.Alloc:
				cells[x] = true
				whole[aliveKey] = true
			case *ssa.MakeMap, *ssa.MakeChan, *ssa.MakeClosure:
				whole[aliveKey] = true
			case *ssa.MapUpdate:
				mi := c.mapInfo(x.Map.Type())
				whole[mi.KeyHas] = true
				whole[mi.KeyVal] = true
			case *ssa.Next:
				if rg, ok := x.Iter.(*ssa.Range); ok {
					cells["visited:"+rg.Name()] = true
				}
			case *ssa.Send:
				if c.chanMode(fr, x.Chan) != "" {
					fields[chLen] = append(fields[chLen], baseRef{V: x.Chan})
					fields[chVal] = append(fields[chVal], baseRef{V: x.Chan})
				}
			case *ssa.UnOp:
				if x.Op == token.ARROW {
					if c.chanMode(fr, x.X) != "" {
						fields[chLen] = append(fields[chLen], baseRef{V: x.X})
						fields[chVal] = append(fields[chVal], baseRef{V: x.X})
					}
					whole[ctxDoneKey] = true
				}
			case *ssa.Select:
				for _, sst := range x.States {
					if c.chanMode(fr, sst.Chan) != "" {
						fields[chLen] = append(fields[chLen], baseRef{V: sst.Chan})
						fields[chVal] = append(fields[chVal], baseRef{V: sst.Chan})
					}
				}
				whole[ctxDoneKey] = true
			case ssa.CallInstruction:
				cc := x.Common()
				if cc.IsInvoke() && cc.Method.Name() == "Err" {
					whole[ctxDoneKey] = true
				}
				if c.preciseCallWrites(fr, cc, fields, whole) {
					continue
				}
				ws, wall := c.V.callWrites(c, fr, cc)
				if wall {
					all = true
				}
				for k := range ws {
					whole[k] = true
				}
				// closures may write captured cells
				if mc, ok := cc.Value.(*ssa.MakeClosure); ok {
					for _, bnd := range mc.Bindings {
						addAddr(bnd)
					}
				}
				if u, ok := cc.Value.(*ssa.UnOp); ok {
					// call of a closure stored in a local: conservatively havoc heap-escaping cells
					_ = u
					for _, l := range fr.fn.Locals {
						if l.Heap {
							cells[l] = true
						}
					}
				}
				// builtin delete / close / append handled: delete writes map
				if bi, ok := cc.Value.(*ssa.Builtin); ok {
					switch bi.Name() {
					case "delete":
						mi := c.mapInfo(cc.Args[0].Type())
						whole[mi.KeyHas] = true
					case "close":
						whole[chClosed] = true
					case "copy":
						if len(cc.Args) > 0 {
							if u, ok := cc.Args[0].(*ssa.UnOp); ok {
								addAddr(&ssa.IndexAddr{X: u})
							}
						}
					}
				}
			}
		}
	}
	return
}

func stableBase(li *loopInfo, cells map[interface{}]bool, v ssa.Value) bool {
	if a, ok := v.(*ssa.Alloc); ok {
		return !cells[a] // the content of a variable the loop does not assign
	}
	if fv, ok := v.(*ssa.FreeVar); ok {
		return !cells[fv]
	}
	switch x := v.(type) {
	case *ssa.Parameter, *ssa.Const:
		return true
	case *ssa.UnOp:
		if x.Op == token.MUL {
			switch a := x.X.(type) {
			case *ssa.Alloc:
				return !cells[a]
			case *ssa.FreeVar:
				return !cells[a]
			case *ssa.FieldAddr:
				// a field of a stable object, provided the loop does not write that field (checked by the caller
				// through stableFieldKeys)
				return stableBase(li, cells, a.X)
			}
		}
	}
	if in, ok := v.(ssa.Instruction); ok {
		return !li.body[in.Block()] // defined outside the loop
	}
	return false
}

// enterLoopHead handles a cut point. Returns false when the path ends here (back edge).
func (c *Ctx) enterLoopHead(st *State, fr *Frame, li *loopInfo, pred *ssa.BasicBlock) (goOn bool) {
	// a loop clause that can no longer be stated over the code (it names a local the loop no longer has) leaves every
	// path through this loop undecided - but only those: what the function does before it reaches the loop is still
	// checked (a required call that comes first, a safety obligation). Without this a change that moves code around a
	// loop would hide everything else the function's contract says.
	defer func() {
		if r := recover(); r != nil {
			e, ok := r.(evalErr)
			if !ok {
				panic(r)
			}
			note := fmt.Sprintf("contract error in a clause of loop %d (paths through the loop are not decided): %s", li.ord, e.msg)
			if !c.loopNotes[note] {
				if c.loopNotes == nil {
					c.loopNotes = map[string]bool{}
				}
				c.loopNotes[note] = true
			}
			goOn = false
		}
	}()
	invs, decs := c.loopClauses(fr, li)
	pos := token.NoPos
	for _, in := range li.head.Instrs {
		if in.Pos().IsValid() {
			pos = in.Pos()
			break
		}
	}
	// built-in invariant of every range-over-slice loop: the hidden index never drops below -1
	rangeIdx := func(st *State) []Term {
		var out []Term
		cs, _, _, _ := c.loopWrites(fr, li)
		for _, key := range sortedCellKeys(cs) {
			if a, ok := key.(*ssa.Alloc); ok && a.Comment == "rangeindex" {
				if v, ok := st.cells[a]; ok {
					out = append(out, mk(SBool, "(<= (- 1) %s)", v.(Term).S))
				}
			}
		}
		return out
	}
	if st.inLoop[li.head] {
		for _, g := range rangeIdx(st) {
			c.oblige(st, fr, "inv-keep", fmt.Sprintf("loop%d", li.ord), "rangeindex-lower-bound", pos, g, nil, "-1 <= rangeindex (built in)")
		}
		for _, cl := range invs {
			env := c.envFor(st, fr, fr.entry)
			env.goal = true
			g := env.evalBool(cl.E)
			c.oblige(st, fr, "inv-keep", fmt.Sprintf("loop%d", li.ord), cl.Label, pos+token.Pos(cl.Line)*0, g, cl.Props, cl.Src)
		}
		// `loop N continue E`: holds whenever the loop goes round again (proved at back edges only; it is neither
		// required on entry nor assumed at the head)
		if fr.fc != nil {
			for _, cl := range fr.fc.Clauses {
				if cl.Kind != "continue" || cl.Loop != li.ord {
					continue
				}
				env := c.envFor(st, fr, fr.entry)
				env.goal = true
				g := env.evalBool(cl.E)
				c.oblige(st, fr, "continue", fmt.Sprintf("loop%d", li.ord), cl.Label, pos, g, cl.Props, cl.Src)
			}
		}
		if v0, ok := st.variant[li.head]; ok {
			for i, cl := range decs {
				env := c.envFor(st, fr, fr.entry)
				v := env.eval(cl.E)
				c.oblige(st, fr, "variant", fmt.Sprintf("loop%d", li.ord), cl.Label, pos, and(mk(SBool, "(< %s %s)", v.S, v0[i].S), mk(SBool, "(<= 0 %s)", v0[i].S)), cl.Props, cl.Src)
			}
		}
		return false
	}
	// establishment
	for _, g := range rangeIdx(st) {
		c.oblige(st, fr, "inv-init", fmt.Sprintf("loop%d", li.ord), "rangeindex-lower-bound", pos, g, nil, "-1 <= rangeindex (built in)")
	}
	for _, cl := range invs {
		env := c.envFor(st, fr, fr.entry)
		env.goal = true
		g := env.evalBool(cl.E)
		c.oblige(st, fr, "inv-init", fmt.Sprintf("loop%d", li.ord), cl.Label, pos, g, cl.Props, cl.Src)
	}
	// havoc
	cells, fields, whole, all := c.loopWrites(fr, li)
	directOnly := c.directStores
	for _, key := range sortedCellKeys(cells) {
		cur, ok := st.cells[key]
		var t interface{}
		_ = t
		switch k := key.(type) {
		case *ssa.Alloc:
			et := deref(k.Type())
			if _, isArr := et.Underlying().(interface{ Len() int64 }); isArr {
				// arrays keep their length
				if ok {
					ct := cur.(Term)
					nv := c.fresh("lh_"+k.Comment, ct.Sort)
					st.assume(eq(lenOf(nv), lenOf(ct)))
					st.cells[key] = nv
				}
				continue
			}
			if s, okS := sortOf(et); okS && s != SNone {
				if isRepoStruct(et) {
					continue
				}
				nv := c.freshTyped(st, "lh_"+k.Comment, et)
				if ct, isT := cur.(Term); ok && isT && ct.Sort.isSeq() && st.fresh[ct.S] && !directOnly[key] {
					// the loop writes this slice only element-wise: it stays the same freshly allocated array
					st.fresh[nv.S] = true
					st.assume(eq(lenOf(nv), lenOf(ct)))
				}
				if nv.Sort == SInt && isStructPtr(et) {
					c.assumeAlive(st, nv)
				}
				st.cells[key] = nv
			}
		case *ssa.FreeVar:
			et := deref(k.Type())
			st.cells[key] = c.freshTyped(st, "lh_"+k.Name(), et)
		case *ssa.Global:
			et := deref(k.Type())
			st.cells[key] = c.freshTyped(st, "lh_"+k.Name(), et)
		case string:
			if ok {
				ct := cur.(Term)
				st.cells[key] = c.fresh("lh_vis", ct.Sort)
			}
		}
	}
	if all {
		c.havocAll(st)
	} else {
		for _, key := range sortedStrKeys(fields) {
			bases := fields[key]
			info := c.V.heapKeys[key]
			switch key {
			case chLen, chVal:
				info = heapKeyInfo{Sort: SInt}
			case chClosed:
				info = heapKeyInfo{Sort: SBool}
			}
			precise := !whole[key]
			for _, b := range bases {
				if !stableBase(li, cells, b.V) {
					precise = false
				}
				for _, fk := range c.fieldLoadKeys(b.V) {
					if _, written := fields[fk]; written || whole[fk] {
						precise = false
					}
				}
				for _, pf := range b.Path {
					if _, written := fields[pf.Key]; written || whole[pf.Key] {
						precise = false
					}
				}
			}
			isMapHeap := len(key) > 3 && (key[:3] == "MK_" || key[:3] == "MV_")
			heapSort, elemSort := arrSort(info.Sort), info.Sort
			if isMapHeap {
				// map heaps are (Array Int (Array K V)): the element is the whole inner array of one map
				heapSort = info.Sort
				elemSort = Sort(strings.TrimSuffix(strings.TrimPrefix(string(info.Sort), "(Array Int "), ")"))
			}
			if precise {
				h := c.heapCur(st, key, heapSort)
				for _, b := range bases {
					ref := c.stableBaseTerm(st, fr, b.V)
					for _, pf := range b.Path {
						ref = c.loadField(st, ref, pf)
					}
					fv := c.fresh("lh_"+key, elemSort)
					h = sto(h, ref, fv)
				}
				st.heap[key] = h
			} else {
				c.heapHavoc(st, key, heapSort)
			}
		}
		for _, key := range sortedKeys(whole) {
			if key == aliveKey {
				old := c.aliveCur(st)
				nw := c.heapHavoc(st, aliveKey, old.Sort)
				st.assume(mk(SBool, "(forall ((r Int)) (! (=> (select %s r) (select %s r)) :pattern ((select %s r))))", old.S, nw.S, nw.S))
				continue
			}
			if _, done := fields[key]; done {
				continue
			}
			info, ok := c.V.heapKeys[key]
			if !ok && len(key) > 2 && key[:2] == "G_" {
				if g, isG := c.V.specs.Ghosts[key[2:]]; isG {
					c.heapHavoc(st, key, c.V.sortOfTypeName(g.Type))
				}
				continue
			}
			if !ok {
				switch key {
				case chLen, chVal:
					info = heapKeyInfo{Sort: SInt}
				case chClosed, ctxDoneKey:
					info = heapKeyInfo{Sort: SBool}
				default:
					continue
				}
				c.heapHavoc(st, key, arrSort(info.Sort))
				continue
			}
			if len(key) > 3 && (key[:3] == "MK_" || key[:3] == "MV_" || key[:2] == "G_") {
				c.heapHavoc(st, key, info.Sort)
			} else {
				c.heapHavoc(st, key, arrSort(info.Sort))
			}
		}
	}
	// assume invariants
	for _, g := range rangeIdx(st) {
		st.assume(g)
	}
	for _, cl := range invs {
		env := c.envFor(st, fr, fr.entry)
		st.assume(env.evalBool(cl.E))
	}
	if fr.fc != nil {
		for _, cl := range fr.fc.Clauses {
			if cl.Kind != "loopset" || cl.Loop != li.ord {
				continue
			}
			g, ok := c.V.specs.Ghosts[cl.Site]
			if !ok {
				evalFail("loop set: unknown ghost variable %s", cl.Site)
			}
			env := c.envFor(st, fr, fr.entry)
			st.heap["G_"+g.Name] = env.eval(cl.E)
		}
	}
	if len(decs) > 0 {
		var vs []Term
		for _, cl := range decs {
			env := c.envFor(st, fr, fr.entry)
			vs = append(vs, env.eval(cl.E))
		}
		st.variant[li.head] = vs
	}
	st.inLoop[li.head] = true
	return true
}

func (c *Ctx) loopClauses(fr *Frame, li *loopInfo) (invs, decs []*Clause) {
	if fr.fc == nil {
		return
	}
	for _, cl := range fr.fc.Clauses {
		if cl.Loop != li.ord {
			continue
		}
		switch cl.Kind {
		case "invariant":
			invs = append(invs, cl)
		case "decreases":
			decs = append(decs, cl)
		}
	}
	return
}

// havocAll forgets every heap map (unknown callee): a new epoch of initial heap symbols starts.
func (c *Ctx) havocAll(st *State) {
	old := c.aliveCur(st)
	c.nepoch++
	st.epoch = c.nepoch
	st.heap = map[string]Term{}
	nw := c.aliveCur(st)
	st.assume(mk(SBool, "(forall ((r Int)) (! (=> (select %s r) (select %s r)) :pattern ((select %s r))))", old.S, nw.S, nw.S))
}

// preciseCallWrites handles calls whose contract modifies only fields of objects named by arguments
// (x.f with x a parameter, object(x) with x an interface built from a pointer at the call site):
// the written locations are recorded as (heap map, base value) pairs so that a loop head can havoc
// exactly those locations when the base is loop-invariant. Returns false when the call needs the general treatment.
func (c *Ctx) preciseCallWrites(fr *Frame, cc *ssa.CallCommon, fields map[string][]baseRef, whole map[string]bool) bool {
	if _, isB := cc.Value.(*ssa.Builtin); isB {
		return false
	}
	var fc *FuncContract
	var names []string
	var args []ssa.Value
	if cc.IsInvoke() {
		return false
	}
	switch v := cc.Value.(type) {
	case *ssa.Function:
		fc = c.V.contractFor(v)
		for _, p := range v.Params {
			names = append(names, p.Name())
		}
		if len(names) == 0 {
			names = sigParamNames(v.Signature, true)
		}
		args = cc.Args
	case *ssa.MakeClosure:
		return false
	default:
		key := "dyn:" + c.dynKey(fr, cc.Value)
		fc = c.V.specs.Funcs[key]
		if fc == nil {
			fc = c.V.specs.Funcs["dyn:"+typeKey(cc.Value.Type())]
		}
		sig, ok := cc.Value.Type().Underlying().(*types.Signature)
		if !ok {
			return false
		}
		names = sigParamNames(sig, false)
		args = cc.Args
	}
	if fc == nil || !fc.HasMod || fc.Inline {
		return false
	}
	argByName := func(n string) ssa.Value {
		for i, nm := range names {
			if nm == n && i < len(args) {
				return args[i]
			}
		}
		if len(n) > 3 && n[:3] == "arg" {
			var k int
			if _, err := fmt.Sscanf(n[3:], "%d", &k); err == nil {
				off := len(args) - len(names)
				_ = off
				if k < len(args) {
					return args[k]
				}
			}
		}
		return nil
	}
	type pend struct {
		key  string
		base baseRef
	}
	var out []pend
	var wholeKeys []string
	for _, m := range fc.Modifies {
		switch e := m.E.(type) {
		case EField:
			// x.f or x.g.h.f with x a parameter
			var names []string
			cur := Expr(e)
			for {
				if f, ok := cur.(EField); ok {
					names = append([]string{f.Name}, names...)
					cur = f.X
					continue
				}
				break
			}
			id, ok := cur.(EIdent)
			if !ok {
				return false
			}
			a := argByName(id.Name)
			var t types.Type
			if a == nil {
				// a variable of the calling function (contracts of function values may mention them)
				key, kt, ok := c.V.cellByName(fr.fn, id.Name)
				if !ok {
					return false
				}
				switch k := key.(type) {
				case *ssa.Alloc:
					a = k
				case *ssa.FreeVar:
					a = k
				default:
					return false
				}
				t = kt
			} else {
				t = a.Type()
			}
			var path []fieldInfo
			for _, n := range names {
				fis, ok := c.resolveFieldChain(t, n)
				if !ok {
					return false
				}
				path = append(path, fis...)
				t = fis[len(fis)-1].GoT
			}
			last := path[len(path)-1]
			if isRepoStruct(last.GoT) {
				return false
			}
			out = append(out, pend{last.Key, baseRef{V: a, Path: path[:len(path)-1]}})
		case ECall:
			switch e.Fn {
			case "alloc":
				wholeKeys = append(wholeKeys, aliveKey)
			case "chans":
				wholeKeys = append(wholeKeys, chLen, chVal, chClosed)
			case "chan":
				// chan(x.f.g): typestate of the channel held in that field
				var names []string
				cur := e.Args[0]
				for {
					if f, ok := cur.(EField); ok {
						names = append([]string{f.Name}, names...)
						cur = f.X
						continue
					}
					break
				}
				id, ok := cur.(EIdent)
				if !ok {
					return false
				}
				a := argByName(id.Name)
				var t types.Type
				if a == nil {
					key, kt, ok := c.V.cellByName(fr.fn, id.Name)
					if !ok {
						return false
					}
					switch k := key.(type) {
					case *ssa.Alloc:
						a = k
					case *ssa.FreeVar:
						a = k
					default:
						return false
					}
					t = kt
				} else {
					t = a.Type()
				}
				var path []fieldInfo
				for _, n := range names {
					fis, ok := c.resolveFieldChain(t, n)
					if !ok {
						return false
					}
					path = append(path, fis...)
					t = fis[len(fis)-1].GoT
				}
				for _, k := range []string{chLen, chVal, chClosed} {
					out = append(out, pend{k, baseRef{V: a, Path: path}})
				}
			case "keys", "mapof":
				// keys(x.f): keys and values of the map held in that field
				var names []string
				cur := e.Args[0]
				for {
					if f, ok := cur.(EField); ok {
						names = append([]string{f.Name}, names...)
						cur = f.X
						continue
					}
					break
				}
				id, ok := cur.(EIdent)
				if !ok {
					return false
				}
				a := argByName(id.Name)
				if a == nil {
					return false
				}
				t := a.Type()
				var path []fieldInfo
				for _, n := range names {
					fis, ok := c.resolveFieldChain(t, n)
					if !ok {
						return false
					}
					path = append(path, fis...)
					t = fis[len(fis)-1].GoT
				}
				if _, isMap := t.Underlying().(*types.Map); !isMap {
					return false
				}
				mi := c.mapInfo(t)
				out = append(out, pend{mi.KeyHas, baseRef{V: a, Path: path}}, pend{mi.KeyVal, baseRef{V: a, Path: path}})
			case "object":
				id, ok := e.Args[0].(EIdent)
				if !ok {
					return false
				}
				a := argByName(id.Name)
				mi, ok := a.(*ssa.MakeInterface)
				if a == nil || !ok || !isStructPtr(mi.X.Type()) {
					return false
				}
				s, owner := structOf(mi.X.Type())
				for i := 0; i < s.NumFields(); i++ {
					fi := c.fieldByIndex(owner, i)
					if isRepoStruct(fi.GoT) {
						continue
					}
					out = append(out, pend{fi.Key, baseRef{V: mi.X}})
				}
			default:
				return false
			}
		case EIdent:
			if _, isGhost := c.V.specs.Ghosts[e.Name]; isGhost {
				wholeKeys = append(wholeKeys, "G_"+e.Name)
				continue
			}
			return false
		default:
			return false
		}
	}
	for _, p := range out {
		fields[p.key] = append(fields[p.key], p.base)
	}
	for _, k := range wholeKeys {
		whole[k] = true
	}
	return true
}

// stableBaseTerm evaluates a loop-invariant base value at the loop head (the load instruction itself may
// live inside the loop body and not have executed yet).
func (c *Ctx) stableBaseTerm(st *State, fr *Frame, v ssa.Value) Term {
	switch a := v.(type) {
	case *ssa.Alloc:
		return c.valAsTerm(c.loadCell(st, &Addr{Kind: aCell, Key: a, Elem: deref(a.Type())}))
	case *ssa.FreeVar:
		return c.valAsTerm(c.loadCell(st, &Addr{Kind: aCell, Key: a, Elem: deref(a.Type())}))
	}
	if u, ok := v.(*ssa.UnOp); ok && u.Op == token.MUL {
		switch a := u.X.(type) {
		case *ssa.Alloc:
			return c.valAsTerm(c.loadCell(st, &Addr{Kind: aCell, Key: a, Elem: deref(a.Type())}))
		case *ssa.FreeVar:
			return c.valAsTerm(c.loadCell(st, &Addr{Kind: aCell, Key: a, Elem: deref(a.Type())}))
		case *ssa.FieldAddr:
			base := c.stableBaseTerm(st, fr, a.X)
			return c.loadField(st, base, c.fieldByIndex(a.X.Type(), a.Field))
		}
	}
	return c.term(st, fr, v)
}

func sortedStrKeys(m map[string][]baseRef) []string {
	var out []string
	for k := range m {
		out = append(out, k)
	}
	sort.Strings(out)
	return out
}

// sortedCellKeys orders cell keys deterministically (by kind, name and source position)
func sortedCellKeys(m map[interface{}]bool) []interface{} {
	type ent struct {
		k interface{}
		s string
	}
	var es []ent
	for k := range m {
		s := ""
		switch x := k.(type) {
		case *ssa.Alloc:
			s = fmt.Sprintf("a|%s|%09d|%s", x.Comment, int(x.Pos()), x.Name())
		case *ssa.FreeVar:
			s = "f|" + x.Name()
		case *ssa.Global:
			s = "g|" + x.Name()
		case string:
			s = "s|" + x
		}
		es = append(es, ent{k, s})
	}
	sort.Slice(es, func(i, j int) bool { return es[i].s < es[j].s })
	var out []interface{}
	for _, e := range es {
		out = append(out, e.k)
	}
	return out
}

// fieldLoadKeys: heap maps read by a chain of field loads x.f.g (as SSA values)
func (c *Ctx) fieldLoadKeys(v ssa.Value) []string {
	var out []string
	for {
		u, ok := v.(*ssa.UnOp)
		if !ok || u.Op != token.MUL {
			return out
		}
		fa, ok := u.X.(*ssa.FieldAddr)
		if !ok {
			return out
		}
		out = append(out, c.fieldByIndex(fa.X.Type(), fa.Field).Key)
		v = fa.X
	}
}
