package main

// maps, channels, range/next, select, go

import (
	"fmt"
	"go/token"
	"go/types"
	"strings"

	"golang.org/x/tools/go/ssa"
)

type mapInfoT struct {
	KeyHas, KeyVal   string
	K                string
	V                Sort
	HasSort, ValSort Sort
	KeyT, ValT       types.Type
}

func (c *Ctx) mapInfo(t types.Type) mapInfoT {
	m := t.Underlying().(*types.Map)
	ks := mustSort(m.Key())
	vs := mustSort(m.Elem())
	n := shortTypeName(t)
	mi := mapInfoT{KeyHas: "MK_" + n, KeyVal: "MV_" + n, K: string(ks), V: vs, KeyT: m.Key(), ValT: m.Elem()}
	mi.HasSort = Sort(fmt.Sprintf("(Array Int (Array %s Bool))", ks))
	mi.ValSort = Sort(fmt.Sprintf("(Array Int (Array %s %s))", ks, vs))
	c.V.heapKeys[mi.KeyHas] = heapKeyInfo{Owner: typeKey(t), Field: "<keys>", Sort: mi.HasSort}
	c.V.heapKeys[mi.KeyVal] = heapKeyInfo{Owner: typeKey(t), Field: "<values>", Sort: mi.ValSort}
	return mi
}

func (c *Ctx) mapHas(st *State, mi mapInfoT, m, k Term) Term {
	h := c.heapCur(st, mi.KeyHas, mi.HasSort)
	return mk(SBool, "(select (select %s %s) %s)", h.S, m.S, k.S)
}

func (c *Ctx) mapGet(st *State, mi mapInfoT, m, k Term) Term {
	h := c.heapCur(st, mi.KeyVal, mi.ValSort)
	v := mk(mi.V, "(select (select %s %s) %s)", h.S, m.S, k.S)
	v.GoT = mi.ValT
	return v
}

func (c *Ctx) mapLookup(st *State, fr *Frame, x *ssa.Lookup) {
	m := c.term(st, fr, x.X)
	k := c.term(st, fr, x.Index)
	mi := c.mapInfo(x.X.Type())
	has := and(mk(SBool, "(not (= %s 0))", m.S), c.mapHas(st, mi, m, k))
	val := ite(has, c.mapGet(st, mi, m, k), c.zeroOf(mi.ValT))
	val.GoT = mi.ValT
	if val.Sort == SInt && isStructPtr(mi.ValT) {
		c.assumeAlive(st, val)
	}
	if x.CommaOk {
		st.regs[x] = Tuple{val, has}
	} else {
		st.regs[x] = val
	}
}

func (c *Ctx) mapUpdate(st *State, fr *Frame, x *ssa.MapUpdate) {
	m := c.term(st, fr, x.Map)
	k := c.term(st, fr, x.Key)
	v := c.term(st, fr, x.Value)
	mi := c.mapInfo(x.Map.Type())
	c.oblige(st, fr, "nilmap", c.nameOfValue(x.Map), "", x.Pos(), mk(SBool, "(not (= %s 0))", m.S), nil, "")
	hh := c.heapCur(st, mi.KeyHas, mi.HasSort)
	hv := c.heapCur(st, mi.KeyVal, mi.ValSort)
	st.heap[mi.KeyHas] = Term{S: fmt.Sprintf("(store %s %s (store (select %s %s) %s true))", hh.S, m.S, hh.S, m.S, k.S), Sort: hh.Sort}
	st.heap[mi.KeyVal] = Term{S: fmt.Sprintf("(store %s %s (store (select %s %s) %s %s))", hv.S, m.S, hv.S, m.S, k.S, c.coerce(v, mi.V).S), Sort: hv.Sort}
}

func (c *Ctx) mapDelete(st *State, fr *Frame, mt types.Type, m, k Term) {
	mi := c.mapInfo(mt)
	hh := c.heapCur(st, mi.KeyHas, mi.HasSort)
	// delete on a nil map is a no-op
	upd := fmt.Sprintf("(store %s %s (store (select %s %s) %s false))", hh.S, m.S, hh.S, m.S, k.S)
	st.heap[mi.KeyHas] = Term{S: fmt.Sprintf("(ite (= %s 0) %s %s)", m.S, hh.S, upd), Sort: hh.Sort}
}

// map range: ghost visited set per Range instruction -------------------------------------

type rangeState struct {
	m     Term
	mi    mapInfoT
	vis   Term // (Array K Bool)
	isStr bool
}

func (c *Ctx) rangeInit(st *State, fr *Frame, x *ssa.Range) {
	if _, isMap := x.X.Type().Underlying().(*types.Map); !isMap {
		unsupp("range over string")
	}
	mi := c.mapInfo(x.X.Type())
	m := c.term(st, fr, x.X)
	key := "visited:" + x.Name()
	vis := Term{S: fmt.Sprintf("((as const (Array %s Bool)) false)", mi.K), Sort: Sort("(Array " + mi.K + " Bool)")}
	st.cells[key] = vis
	st.cells["rangemap:"+x.Name()] = m
	st.regs[x] = Unit{}
	c.V.rangeOf[x] = mi
}

func (c *Ctx) rangeNext(st *State, fr *Frame, x *ssa.Next) {
	if x.IsString {
		unsupp("range over string")
	}
	rg := x.Iter.(*ssa.Range)
	mi := c.V.rangeOf[rg]
	key := "visited:" + rg.Name()
	vis := st.cells[key].(Term)
	m := st.cells["rangemap:"+rg.Name()].(Term)
	ok := c.fresh("rng_ok", SBool)
	k := c.fresh("rng_k", Sort(mi.K))
	k.GoT = mi.KeyT
	has := and(mk(SBool, "(not (= %s 0))", m.S), c.mapHas(st, mi, m, k))
	// ok  ==> k is an unvisited key of m ; !ok ==> every key of m is visited
	st.assume(implies(ok, and(has, mk(SBool, "(not (select %s %s))", vis.S, k.S))))
	hh := c.heapCur(st, mi.KeyHas, mi.HasSort)
	st.assume(implies(not(ok), mk(SBool, "(forall ((kk %s)) (! (=> (and (not (= %s 0)) (select (select %s %s) kk)) (select %s kk)) :pattern ((select (select %s %s) kk))))", mi.K, m.S, hh.S, m.S, vis.S, hh.S, m.S)))
	st.cells[key] = Term{S: fmt.Sprintf("(ite %s (store %s %s true) %s)", ok.S, vis.S, k.S, vis.S), Sort: vis.Sort}
	v := c.mapGet(st, mi, m, k)
	if v.Sort == SInt && isStructPtr(mi.ValT) {
		c.assumeAlive(st, v)
	}
	st.regs[x] = Tuple{ok, k, v}
}

// channels ------------------------------------------------------------------------------------

const (
	chLen    = "ChLen"
	chVal    = "ChVal"
	chClosed = "ChClosed"
)

func (c *Ctx) chanInit(st *State, r Term) {
	l := c.heapCur(st, chLen, arrSort(SInt))
	st.heap[chLen] = sto(l, r, tZero)
	cl := c.heapCur(st, chClosed, arrSort(SBool))
	st.heap[chClosed] = sto(cl, r, tFalse)
}

// chanMode: the declared mode of a channel (mailbox | count | signal); a mode may carry the flag `selectonly`
// ("count,selectonly"), answered by chanSelectOnly
func (c *Ctx) chanMode(fr *Frame, v ssa.Value) string {
	m := c.chanModeRaw(fr, v)
	m = strings.TrimSuffix(strings.TrimSuffix(m, ",selectonly"), "selectonly")
	return m
}

func (c *Ctx) chanSelectOnly(fr *Frame, v ssa.Value) bool {
	return strings.HasSuffix(c.chanModeRaw(fr, v), "selectonly")
}

func (c *Ctx) chanModeRaw(fr *Frame, v ssa.Value) string {
	switch x := v.(type) {
	case *ssa.UnOp:
		if x.Op == token.MUL {
			switch a := x.X.(type) {
			case *ssa.FieldAddr:
				s, owner := structOf(a.X.Type())
				if s != nil {
					key := typeKey(owner) + "." + s.Field(a.Field).Name()
					if m, ok := c.V.specs.Chans[key]; ok {
						return m
					}
				}
			case *ssa.Alloc:
				key := c.V.fnKey(fr.fn) + ":" + a.Comment
				if m, ok := c.V.specs.Chans[key]; ok {
					return m
				}
			case *ssa.FreeVar:
				key := c.V.fnKey(fr.fn) + ":" + a.Name()
				if m, ok := c.V.specs.Chans[key]; ok {
					return m
				}
			}
		}
	}
	return ""
}

func (c *Ctx) chanSend(st *State, fr *Frame, ch Term, v Val, chv ssa.Value, pos token.Pos) {
	mode := c.chanMode(fr, chv)
	if mode == "signal" {
		// a channel declared close-only: nothing is ever sent on it (so a completed receive means it was closed)
		c.oblige(st, fr, "chan", "nothing-is-sent-on-a-close-only-channel", "", pos, tFalse, nil, "chanmode signal")
	}
	if c.chanSelectOnly(fr, chv) {
		// a send that nobody may ever pick up must be abandonable: only as an alternative of a select
		c.oblige(st, fr, "chan", "send-is-a-select-alternative", "", pos, tFalse, nil, "chanmode selectonly")
	}
	if mode == "mailbox" {
		l := c.heapCur(st, chLen, arrSort(SInt))
		cl := c.heapCur(st, chClosed, arrSort(SBool))
		c.oblige(st, fr, "chan", "send-slot-empty", "", pos, and(eq(sel(l, ch, SInt), tZero), not(sel(cl, ch, SBool))), nil, "")
		t := c.valAsTerm(v)
		if t.Sort != SInt {
			unsupp("mailbox channel of non-integer element")
		}
		vv := c.heapCur(st, chVal, arrSort(SInt))
		st.heap[chVal] = sto(vv, ch, t)
		st.heap[chLen] = sto(l, ch, mkInt(1))
		return
	}
	if mode == "count" {
		// counted channel: a send is recorded (ChLen is the number of sends so far); blocking is not modelled
		l := c.heapCur(st, chLen, arrSort(SInt))
		st.heap[chLen] = sto(l, ch, mk(SInt, "(+ %s 1)", sel(l, ch, SInt).S))
	}
	c.chanInvariantOblige(st, fr, chv, v, pos)
}

func (c *Ctx) chanRecv(st *State, fr *Frame, ch Term, chv ssa.Value, commaOk bool, t types.Type, pos token.Pos) Val {
	mode := c.chanMode(fr, chv)
	et := chv.Type().Underlying().(*types.Chan).Elem()
	if mode == "mailbox" {
		l := c.heapCur(st, chLen, arrSort(SInt))
		c.oblige(st, fr, "chan", "recv-token-present", "", pos, eq(sel(l, ch, SInt), mkInt(1)), nil, "")
		vv := c.heapCur(st, chVal, arrSort(SInt))
		r := sel(vv, ch, SInt)
		r.GoT = et
		st.heap[chLen] = sto(l, ch, tZero)
		if commaOk {
			return Tuple{r, tTrue}
		}
		return r
	}
	c.noteCtxDone(st, ch, tTrue)
	if mode == "signal" {
		cl := c.heapCur(st, chClosed, arrSort(SBool))
		st.assume(sel(cl, ch, SBool))
	}
	var r Val
	if _, isStruct := et.Underlying().(*types.Struct); isStruct {
		r = c.freshTyped(st, "recv", types.Typ[types.Int])
	} else {
		rt := c.freshTyped(st, "recv", et)
		if rt.Sort == SInt && isStructPtr(et) {
			c.assumeAlive(st, rt)
		}
		c.chanInvariantAssume(st, fr, chv, rt)
		r = rt
	}
	if commaOk {
		ok := c.fresh("recv_ok", SBool)
		return Tuple{r, ok}
	}
	return r
}

func (c *Ctx) chanInvariantOblige(st *State, fr *Frame, chv ssa.Value, v Val, pos token.Pos) {
	// channel invariants are declared per function: `chaninv NAME v => expr` (handled in contracts.go)
	c.chanInv(st, fr, chv, v, pos, true)
}

func (c *Ctx) chanInvariantAssume(st *State, fr *Frame, chv ssa.Value, v Term) {
	c.chanInv(st, fr, chv, v, token.NoPos, false)
}

func (c *Ctx) closeChan(st *State, fr *Frame, ch Term, pos token.Pos) {
	cl := c.heapCur(st, chClosed, arrSort(SBool))
	c.oblige(st, fr, "chan", "close-not-closed", "", pos, and(not(eq(ch, tZero)), not(sel(cl, ch, SBool))), nil, "")
	st.heap[chClosed] = sto(cl, ch, tTrue)
}

// select -------------------------------------------------------------------------------------

func (c *Ctx) selectInstr(st *State, fr *Frame, x *ssa.Select) {
	n := len(x.States)
	idx := c.fresh("sel", SInt)
	lo := "0"
	if !x.Blocking {
		lo = "(- 1)"
	}
	st.assume(mk(SBool, "(and (<= %s %s) (< %s %d))", lo, idx.S, idx.S, n))
	tu := Tuple{idx, c.fresh("sel_ok", SBool)}
	for i, s := range x.States {
		if s.Dir == types.RecvOnly {
			c.noteCtxDone(st, c.term(st, fr, s.Chan), eq(idx, mkInt(int64(i))))
			if c.chanMode(fr, s.Chan) == "signal" {
				// close-only channel: the receive completes only because the channel was closed
				cl := c.heapCur(st, chClosed, arrSort(SBool))
				st.assume(implies(eq(idx, mkInt(int64(i))), sel(cl, c.term(st, fr, s.Chan), SBool)))
			}
			et := s.Chan.Type().Underlying().(*types.Chan).Elem()
			var rv Term
			if _, isStruct := et.Underlying().(*types.Struct); isStruct {
				rv = c.fresh("selrecv", SInt)
			} else {
				rv = c.freshTyped(st, "selrecv", et)
				if rv.Sort == SInt && isStructPtr(et) {
					c.assumeAlive(st, rv)
				}
				// the received value satisfies the channel invariant when this case is chosen
				sub := st.clone()
				c.chanInv(sub, fr, s.Chan, rv, token.NoPos, false)
				for _, p := range sub.pc[len(st.pc):] {
					st.assume(implies(eq(idx, mkInt(int64(i))), Term{S: p, Sort: SBool}))
				}
			}
			tu = append(tu, rv)
		} else {
			// send case: if chosen, the invariant must hold for the value sent
			sub := st.clone()
			sub.assume(eq(idx, mkInt(int64(i))))
			c.chanInv(sub, fr, s.Chan, c.get(st, fr, s.Send), s.Pos, true)
			if c.chanMode(fr, s.Chan) == "count" {
				ch := c.term(st, fr, s.Chan)
				l := c.heapCur(st, chLen, arrSort(SInt))
				nl := c.heapHavoc(st, chLen, l.Sort)
				st.assume(eq(nl, ite(eq(idx, mkInt(int64(i))), sto(l, ch, mk(SInt, "(+ %s 1)", sel(l, ch, SInt).S)), l)))
			}
		}
	}
	st.regs[x] = tu
}

// go ---------------------------------------------------------------------------------------------

func (c *Ctx) goStmt(st *State, fr *Frame, x *ssa.Go) {
	c.V.assumptions["A-GO: a `go` statement is verified per goroutine; at the spawn point only the callee's precondition is checked, captured local cells become volatile in the spawner, no interleaving is explored"] = true
	var fnv Val
	if !x.Call.IsInvoke() {
		fnv = c.get(st, fr, x.Call.Value)
	}
	var args []Val
	for _, a := range x.Call.Args {
		args = append(args, c.get(st, fr, a))
	}
	// at-go assertions and callee precondition
	c.atCallClauses(st, fr, &x.Call, x, fnv, args)
	spawn := func(f *ssa.Function, bind []Val) {
		fc := c.V.contractFor(f)
		if fc == nil {
			c.trusted["goroutine without contract (its effects on shared state are invisible to the spawner): "+c.V.fnKey(f)] = true
			return
		}
		fc.Used = true
		tgt := c.targetOfFn(f, args, bind)
		env := c.calleeEnv(st, st, fr, tgt)
		c.bindLets(env, fc)
		for _, cl := range fc.Clauses {
			if cl.Kind != "requires" || cl.Assumed {
				continue
			}
			env.goal = true
			g := env.evalBool(cl.E)
			env.goal = false
			c.oblige(st, fr, "pre", "go:"+shortName(tgt.key), cl.Label, x.Pos(), g, nil, cl.Src)
		}
		// from here on the goroutine may have made any progress: everything it may modify is unknown to the spawner
		old := st.heapSnapshot()
		if fc.HasMod {
			for _, m := range fc.Modifies {
				c.havocLoc(st, old, fr, env, m, tgt)
			}
		} else {
			ws, all := c.V.writeSetOfTarget(c, tgt)
			if all {
				c.havocAll(st)
			}
			for _, key := range sortedKeys(ws) {
				c.havocKey(st, key)
			}
		}
		// object invariants the goroutine maintains hold whenever the spawner looks
		env2 := c.calleeEnv(st, old, fr, tgt)
		c.bindLets(env2, fc)
		for _, cl := range fc.Clauses {
			if cl.Kind == "maintains" {
				st.assume(env2.evalBool(cl.E))
			}
		}
	}
	if cl, ok := fnv.(*Closure); ok {
		spawn(cl.Fn, cl.Bind)
		// captured variables the goroutine may assign are unknown to the spawner from here on
		for i, b := range cl.Bind {
			if a, ok := b.(*Addr); ok && a.Kind == aCell && i < len(cl.Fn.FreeVars) && freeVarWritten(cl.Fn, cl.Fn.FreeVars[i], 0) {
				st.volatile[a.Key] = true
			}
		}
	} else if f := x.Call.StaticCallee(); f != nil {
		spawn(f, nil)
	}
}

// context.Context: ctx.Done() is the channel (ctxdone ctx); a receive from it succeeds only once the context is
// cancelled or past its deadline, after which ctx.Err() is non-nil for good (ghost map CtxDone).
const ctxDoneKey = "CtxDone"

func (c *Ctx) noteCtxDone(st *State, ch Term, when Term) {
	if !strings.HasPrefix(ch.S, "(ctxdone ") {
		return
	}
	ctx := strings.TrimSuffix(strings.TrimPrefix(ch.S, "(ctxdone "), ")")
	h := c.heapCur(st, ctxDoneKey, arrSort(SBool))
	nh := c.heapHavoc(st, ctxDoneKey, h.Sort)
	st.assume(eq(nh, ite(when, Term{S: fmt.Sprintf("(store %s %s true)", h.S, ctx), Sort: h.Sort}, h)))
}

// freeVarWritten: does f (or a closure it creates that captures the same variable) store to the captured variable fv?
func freeVarWritten(f *ssa.Function, fv *ssa.FreeVar, depth int) bool {
	if depth > 4 {
		return true
	}
	for _, b := range f.Blocks {
		for _, in := range b.Instrs {
			switch x := in.(type) {
			case *ssa.Store:
				if x.Addr == ssa.Value(fv) {
					return true
				}
			case *ssa.MakeClosure:
				inner := x.Fn.(*ssa.Function)
				for i, bnd := range x.Bindings {
					if bnd == ssa.Value(fv) && i < len(inner.FreeVars) && freeVarWritten(inner, inner.FreeVars[i], depth+1) {
						return true
					}
				}
			case ssa.CallInstruction:
				// the address of the variable handed to some other function
				for _, a := range x.Common().Args {
					if a == ssa.Value(fv) {
						return true
					}
				}
			}
		}
	}
	return false
}
