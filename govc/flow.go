package main

// Explicit information-flow obligations (kind "flow"), decided syntactically on the SSA of the real code:
//
//   //@   flows SRC only to SINK, SINK, ...          (clause of a function contract)
//   //@ secret pkg.Type.field readers F1, F2, ...     (top level: which functions may read a secret field at all)
//
// SRC is a parameter / captured variable name or a field path `x.f` (every load of field f of x's struct type in
// the function is a source). A value is tainted if it is computed from a tainted value (conversions, slicing,
// concatenation, boxing, phi, element access, storing into and loading from a local variable, results of calls that
// receive a tainted argument). Comparisons and len() are NOT propagated (implicit flows and lengths are outside the
// claim). A tainted value may be used only at the listed sinks:
//     CALLEE#k.argN        the N-th argument (receiver excluded) of the k-th call of CALLEE (or CALLEE#k.NAME: the
//                          callee's parameter of that name, whatever its position); the call consumes the
//                          value (its results are clean: the callee's own contract answers for what it does with it)
//     via:CALLEE#k.argN    same, but the results of the call are tainted (strings.Join, append-like helpers)
//     store:Type.field     a store into that field
//     closure:NAME         captured by the closure NAME (which needs its own flows clause)
//     return               returned
// Anything else (another call argument, a store into the heap, a channel send, a return) fails the obligation.

import (
	"fmt"
	"go/token"
	"go/types"
	"sort"
	"strings"

	"golang.org/x/tools/go/ssa"
)

type FlowClause struct {
	Src   string
	Sinks []string
	Label string
	Props []string
	Text  string
	Line  int
}

type SecretField struct {
	Field   string // pkg.Type.field
	Readers []string
	Props   []string
}

func parseFlowClause(rest string) (*FlowClause, error) {
	c := &Clause{}
	rest = parseTags(rest, c)
	parts := strings.SplitN(rest, " only to ", 2)
	if len(parts) != 2 {
		return nil, fmt.Errorf("flows SRC only to SINK, ...")
	}
	fc := &FlowClause{Src: strings.TrimSpace(parts[0]), Label: c.Label, Props: c.Props, Text: rest}
	for _, s := range strings.Split(parts[1], ",") {
		s = strings.TrimSpace(s)
		if s != "" {
			fc.Sinks = append(fc.Sinks, s)
		}
	}
	return fc, nil
}

// flowCheck returns "" when the clause holds, otherwise a description of the first offending use.
func (v *Verifier) flowCheck(f *ssa.Function, fl *FlowClause) string {
	sinks := map[string]bool{}
	for _, s := range fl.Sinks {
		sinks[s] = true
	}
	sites := v.callSites(f)
	tainted := map[ssa.Value]bool{}
	cells := map[ssa.Value]bool{} // tainted local cells (Alloc / FreeVar)
	// sources
	srcField := ""
	srcVar := fl.Src
	if i := strings.LastIndex(fl.Src, "."); i >= 0 {
		srcVar, srcField = fl.Src[:i], fl.Src[i+1:]
	}
	isSourceLoad := func(u *ssa.UnOp) bool {
		if u.Op != token.MUL {
			return false
		}
		if srcField != "" {
			fa, ok := u.X.(*ssa.FieldAddr)
			if !ok {
				// loading the whole struct reads every field of it
				if st, isStruct := u.Type().Underlying().(*types.Struct); isStruct && strings.HasSuffix(srcVar, "::") && typeKey(u.Type()) == strings.TrimSuffix(srcVar, "::") {
					_ = st
					return true
				}
				return false
			}
			s, owner := structOf(fa.X.Type())
			if s == nil || s.Field(fa.Field).Name() != srcField {
				return false
			}
			// `T::f` names the struct type; `x.f` any base whose struct has a field f
			if strings.HasSuffix(srcVar, "::") {
				return typeKey(owner) == strings.TrimSuffix(srcVar, "::")
			}
			return true
		}
		switch a := u.X.(type) {
		case *ssa.Alloc:
			return a.Comment == srcVar && isParamName(f, srcVar)
		case *ssa.FreeVar:
			return a.Name() == srcVar
		}
		return false
	}
	if srcField == "" {
		for _, p := range f.Params {
			if p.Name() == srcVar {
				tainted[p] = true
			}
		}
	}
	var problem string
	report := func(in ssa.Instruction, what string) {
		if problem == "" {
			pos := v.fset.Position(in.Pos())
			problem = fmt.Sprintf("%s (%s:%d)", what, trimRepo(pos.Filename, v.repo), pos.Line)
		}
	}
	changed := true
	for iter := 0; changed && iter < 50; iter++ {
		changed = false
		mark := func(val ssa.Value) {
			if !tainted[val] {
				tainted[val] = true
				changed = true
			}
		}
		for _, b := range f.Blocks {
			for _, in := range b.Instrs {
				switch x := in.(type) {
				case *ssa.UnOp:
					if isSourceLoad(x) {
						mark(x)
						continue
					}
					if x.Op == token.MUL {
						if cells[x.X] {
							mark(x)
						}
						if ia, ok := x.X.(*ssa.IndexAddr); ok && (tainted[ia.X] || cells[ia.X]) {
							mark(x)
						}
					} else if tainted[x.X] && x.Op != token.NOT {
						mark(x)
					}
				case *ssa.Store:
					if !tainted[x.Val] {
						continue
					}
					switch a := x.Addr.(type) {
					case *ssa.Alloc:
						if !cells[a] {
							cells[a] = true
							changed = true
						}
					case *ssa.FreeVar:
						if !cells[a] {
							cells[a] = true
							changed = true
						}
					case *ssa.IndexAddr:
						// element of a local array/slice (varargs, literals): taint the container
						root := a.X
						if u, ok := root.(*ssa.UnOp); ok && u.Op == token.MUL {
							root = u.X
						}
						if !cells[root] {
							cells[root] = true
							changed = true
						}
						if !tainted[a.X] {
							tainted[a.X] = true
							changed = true
						}
					case *ssa.FieldAddr:
						s, owner := structOf(a.X.Type())
						key := "store:" + shortOwner(typeKey(owner)) + "." + s.Field(a.Field).Name()
						if !sinks[key] {
							report(in, "stored into "+key[6:])
						}
					default:
						report(in, "stored through a pointer")
					}
				case *ssa.BinOp:
					switch x.Op {
					case token.EQL, token.NEQ, token.LSS, token.LEQ, token.GTR, token.GEQ:
					default:
						if tainted[x.X] || tainted[x.Y] {
							mark(x)
						}
					}
				case *ssa.Convert:
					if tainted[x.X] {
						mark(x)
					}
				case *ssa.ChangeType:
					if tainted[x.X] {
						mark(x)
					}
				case *ssa.ChangeInterface:
					if tainted[x.X] {
						mark(x)
					}
				case *ssa.MakeInterface:
					if tainted[x.X] {
						mark(x)
					}
				case *ssa.Slice:
					if tainted[x.X] || cells[x.X] {
						mark(x)
					}
				case *ssa.Phi:
					for _, e := range x.Edges {
						if tainted[e] {
							mark(x)
						}
					}
				case *ssa.Extract:
					if tainted[x.Tuple] {
						mark(x)
					}
				case *ssa.Index:
					if tainted[x.X] {
						mark(x)
					}
				case *ssa.Lookup:
					if tainted[x.X] {
						mark(x)
					}
				case *ssa.TypeAssert:
					if tainted[x.X] {
						mark(x)
					}
				case *ssa.MakeClosure:
					for _, bnd := range x.Bindings {
						if tainted[bnd] || cells[bnd] {
							name := "closure:" + x.Fn.Name()
							if !sinks[name] {
								report(in, "captured by "+x.Fn.Name())
							}
						}
					}
				case *ssa.Send:
					if tainted[x.X] {
						report(in, "sent on a channel")
					}
				case *ssa.MapUpdate:
					if tainted[x.Value] || tainted[x.Key] {
						report(in, "stored into a map")
					}
				case *ssa.Return:
					for _, r := range x.Results {
						if tainted[r] && !sinks["return"] {
							report(in, "returned")
						}
					}
				case ssa.CallInstruction:
					cc := x.Common()
					if bi, ok := cc.Value.(*ssa.Builtin); ok {
						switch bi.Name() {
						case "len", "cap":
							continue
						case "append":
							if val, ok := in.(ssa.Value); ok {
								for _, a := range cc.Args {
									if tainted[a] {
										mark(val)
									}
								}
							}
							continue
						}
					}
					off := 0
					if !cc.IsInvoke() && cc.Signature().Recv() != nil {
						off = 1
					}
					propagate := false
					for i, a := range cc.Args {
						if !tainted[a] && !cells[a] {
							continue
						}
						ok := false
						// a sink may name the callee's parameter instead of its position: CALLEE#k.NAME
						pname := ""
						if callee, isFn := cc.Value.(*ssa.Function); isFn && i < len(callee.Params) {
							pname = callee.Params[i].Name()
						}
						for _, sname := range sites[in] {
							if sinks[fmt.Sprintf("%s.arg%d", sname, i-off)] || (pname != "" && sinks[sname+"."+pname]) {
								ok = true
							}
							if sinks[fmt.Sprintf("via:%s.arg%d", sname, i-off)] {
								ok = true
								propagate = true
							}
						}
						if !ok {
							propagate = true
							names := sites[in]
							n := "a call"
							if len(names) > 0 {
								n = names[len(names)-1]
							}
							report(in, fmt.Sprintf("passed as argument %d of %s", i-off, n))
						}
					}
					if propagate {
						if val, ok := in.(ssa.Value); ok {
							mark(val)
						}
					}
				}
			}
		}
	}
	return problem
}

func isParamName(f *ssa.Function, n string) bool {
	for _, p := range f.Params {
		if p.Name() == n {
			return true
		}
	}
	return false
}

func shortOwner(k string) string {
	if i := strings.LastIndex(k, "."); i >= 0 {
		return k[i+1:]
	}
	return k
}

// secretReaders lists the functions (by key) of the repository that load the given field
func (v *Verifier) secretReaders(field string) []string {
	var out []string
	seen := map[string]bool{}
	for key, f := range v.fnByKey {
		if f.Blocks == nil {
			continue
		}
		pkg := f.Pkg
		for p := f; pkg == nil && p.Parent() != nil; p = p.Parent() {
			pkg = p.Parent().Pkg
		}
		if pkg == nil || !v.isRepoPkg(pkg.Pkg.Path()) {
			continue
		}
		for _, b := range f.Blocks {
			for _, in := range b.Instrs {
				u, ok := in.(*ssa.UnOp)
				if !ok || u.Op != token.MUL {
					continue
				}
				fa, ok := u.X.(*ssa.FieldAddr)
				if !ok {
					if _, isStruct := u.Type().Underlying().(*types.Struct); isStruct && strings.HasPrefix(field, typeKey(u.Type())+".") && !seen[key] {
						seen[key] = true
						out = append(out, key)
					}
					continue
				}
				s, owner := structOf(fa.X.Type())
				if s == nil {
					continue
				}
				if typeKey(owner)+"."+s.Field(fa.Field).Name() == field && !seen[key] {
					seen[key] = true
					out = append(out, key)
				}
			}
		}
	}
	sort.Strings(out)
	return out
}
