// Candidate finding (properties C02 / C08): the NETCONF 1.1 reader decides that a message is complete when its buffer
// matches (?m)^##$ - and `$` also matches at the end of what has been read so far. A payload line that merely starts
// with "##" therefore ends the message as soon as a read stops right after those two bytes (with one-byte reads: always).
//   /verif/findings/run.sh f11_payload_line_of_hashes_test.go driver/netconf TestFindingF11
package netconf_test

import (
	"fmt"
	"os"
	"path/filepath"
	"testing"
	"time"

	"github.com/scrapli/scrapligo/driver/netconf"
	"github.com/scrapli/scrapligo/driver/options"
	"github.com/scrapli/scrapligo/transport"
)

func TestFindingF11(t *testing.T) {
	hello := `<?xml version="1.0" encoding="UTF-8"?>
<hello xmlns="urn:ietf:params:xml:ns:netconf:base:1.0">
<capabilities>
<capability>urn:ietf:params:netconf:base:1.0</capability>
<capability>urn:ietf:params:netconf:base:1.1</capability>
</capabilities>
<session-id>7</session-id></hello>]]>]]>`
	payload := "<rpc-reply xmlns=\"urn:ietf:params:xml:ns:netconf:base:1.0\" message-id=\"101\"><data><banner>\n## maintenance tonight ##\n</banner></data></rpc-reply>"
	reply := fmt.Sprintf("\n#%d\n%s\n##\n", len(payload), payload)
	f := filepath.Join(t.TempDir(), "session.txt")
	if err := os.WriteFile(f, []byte(hello+reply), 0o600); err != nil {
		t.Fatal(err)
	}
	d, err := netconf.NewDriver("dummy",
		options.WithTransportType(transport.FileTransport),
		options.WithFileTransportFile(f),
		options.WithReadDelay(0),
		options.WithTimeoutOps(2*time.Second),
	)
	if err != nil {
		t.Fatal(err)
	}
	if err := d.Open(); err != nil {
		t.Fatalf("open: %v", err)
	}
	r, err := d.GetConfig("running")
	if err != nil {
		t.Fatalf("get-config: %v", err)
	}
	if r.Failed != nil {
		t.Fatalf("a legal chunked reply whose payload has a line starting with ## is reported failed: %v; raw %q", r.Failed, string(r.RawResult))
	}
	if r.Result != payload {
		t.Fatalf("result is not the payload: %q", r.Result)
	}
}
