// Finding F14 (property C19): a platform option given as a whole number of seconds ("timeout-ops: 60") panicked in NewPlatform
// (demonstration written by a review sub-agent).   /verif/findings/run.sh f14_int_seconds_test.go platform TestHuntDefect4.*
package platform_test

// C19: the platform options "timeout-ops" and "read-delay" are documented as a number of seconds
// (platform/options.go: "timeouts in seconds", "read delay in seconds"), but a whole number of
// seconds - `value: 60`, the natural way to write it, decoded by yaml as an int - panics the
// constructor ("option timeoutOps value must be a float") instead of taking effect.

import (
	"testing"
	"time"

	"github.com/scrapli/scrapligo/platform"
)

func huntDefect4Build(t *testing.T, option, value string) (ops, delay time.Duration, panicked interface{}) {
	t.Helper()

	def := []byte(
		"---\nplatform-type: 'hunt'\ndefault:\n  driver-type: 'generic'\n  options:\n" +
			"    - option: " + option + "\n      value: " + value + "\n",
	)

	defer func() {
		panicked = recover()
	}()

	p, err := platform.NewPlatform(def, "localhost")
	if err != nil {
		t.Fatalf("NewPlatform: %v", err)
	}

	d, err := p.GetGenericDriver()
	if err != nil {
		t.Fatalf("GetGenericDriver: %v", err)
	}

	return d.Channel.TimeoutOps, d.Channel.ReadDelay, nil
}

func TestHuntDefect4WholeSecondsPanic(t *testing.T) {
	// sanity: with a decimal point the options work
	ops, _, p := huntDefect4Build(t, "timeout-ops", "60.0")
	if p != nil || ops != 60*time.Second {
		t.Fatalf("timeout-ops: 60.0 -> %v, panic %v", ops, p)
	}

	ops, _, p = huntDefect4Build(t, "timeout-ops", "60")
	if p != nil {
		t.Errorf("timeout-ops: 60 panicked: %v", p)
	} else if ops != 60*time.Second {
		t.Errorf("timeout-ops: 60 -> %v", ops)
	}

	_, delay, p := huntDefect4Build(t, "read-delay", "1")
	if p != nil {
		t.Errorf("read-delay: 1 panicked: %v", p)
	} else if delay != time.Second {
		t.Errorf("read-delay: 1 -> %v", delay)
	}
}
