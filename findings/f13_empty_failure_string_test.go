// Finding F13 (property C13): an empty string in a failure list hid every failure string after it (demonstration written by a
// review sub-agent; fails on the unfixed tree).   /verif/findings/run.sh f13_empty_failure_string_test.go driver/generic TestHuntH1.*
package generic_test

// Defect 1 (property C13): an empty string in the failure-string list hides every failure string
// listed after it.
//
// Drop into driver/generic and run:
//   go test -vet=off -count=1 -run 'TestHuntH1' ./driver/generic/

import (
	"io"
	"strings"
	"sync"
	"testing"

	"github.com/scrapli/scrapligo/driver/generic"
	"github.com/scrapli/scrapligo/driver/opoptions"
	"github.com/scrapli/scrapligo/driver/options"
	"github.com/scrapli/scrapligo/transport"
)

// huntH1Device is a tiny device model: it echoes what it is sent, and on every return character it
// records the received line, prints the reply for that line, and prints the prompt again.
type huntH1Device struct {
	mu     sync.Mutex
	cond   *sync.Cond
	out    []byte
	line   []byte
	lines  []string
	closed bool
	reply  func(line string) string
}

const huntH1Prompt = "router#"

func newHuntH1Device(reply func(string) string) *huntH1Device {
	d := &huntH1Device{reply: reply}
	d.cond = sync.NewCond(&d.mu)

	return d
}

func (d *huntH1Device) Open(_ *transport.Args) error {
	d.mu.Lock()
	defer d.mu.Unlock()

	d.out = append(d.out, []byte(huntH1Prompt)...)
	d.cond.Broadcast()

	return nil
}

func (d *huntH1Device) Close() error {
	d.mu.Lock()
	defer d.mu.Unlock()

	d.closed = true
	d.cond.Broadcast()

	return nil
}

func (d *huntH1Device) IsAlive() bool { return true }

func (d *huntH1Device) Read(n int) ([]byte, error) {
	d.mu.Lock()
	defer d.mu.Unlock()

	for len(d.out) == 0 && !d.closed {
		d.cond.Wait()
	}

	if len(d.out) == 0 {
		return nil, io.EOF
	}

	if n > len(d.out) {
		n = len(d.out)
	}

	b := append([]byte(nil), d.out[:n]...)
	d.out = d.out[n:]

	return b, nil
}

func (d *huntH1Device) Write(b []byte) error {
	d.mu.Lock()
	defer d.mu.Unlock()

	for _, c := range b {
		if c != '\n' {
			d.line = append(d.line, c)
			d.out = append(d.out, c)

			continue
		}

		l := string(d.line)
		d.line = nil
		d.lines = append(d.lines, l)

		d.out = append(d.out, '\n')

		if r := d.reply(l); r != "" {
			d.out = append(d.out, []byte(r+"\n")...)
		}

		d.out = append(d.out, []byte(huntH1Prompt)...)
	}

	d.cond.Broadcast()

	return nil
}

func huntH1Reply(line string) string {
	if strings.HasPrefix(line, "bogus") {
		return "        ^\n% Invalid input detected at '^' marker."
	}

	return "ok " + line
}

func huntH1Driver(t *testing.T, driverLevel []string) *generic.Driver {
	t.Helper()

	d, err := generic.NewDriver(
		"dummy",
		options.WithCustomTransport(newHuntH1Device(huntH1Reply)),
		options.WithFailedWhenContains(driverLevel),
	)
	if err != nil {
		t.Fatalf("creating driver: %s", err)
	}

	if err = d.Open(); err != nil {
		t.Fatalf("opening driver: %s", err)
	}

	t.Cleanup(func() { _ = d.Close() })

	return d
}

// operation-level list: {"", "% Invalid input detected"}.
func TestHuntH1EmptyFailureStringOperationLevel(t *testing.T) {
	d := huntH1Driver(t, nil)

	fw := []string{"", "% Invalid input detected"}

	r, err := d.SendCommand("bogus command", opoptions.WithFailedWhenContains(fw))
	if err != nil {
		t.Fatalf("SendCommand: %s", err)
	}

	if !strings.Contains(r.Result, fw[1]) {
		t.Fatalf("device model broken, output is %q", r.Result)
	}

	if r.Failed == nil {
		t.Fatalf(
			"output %q contains the failure string %q which is in force (list %q), "+
				"but the response is not marked failed",
			r.Result, fw[1], r.FailedWhenContains,
		)
	}
}

// driver-level list, multi response with stop-on-failed: the command after the failed one must be
// withheld, and the multi response must be failed.
func TestHuntH1EmptyFailureStringDriverLevelStopOnFailed(t *testing.T) {
	fw := []string{"", "% Invalid input detected"}

	d := huntH1Driver(t, fw)

	dev, _ := d.Transport.Impl.(*huntH1Device)

	m, err := d.SendCommands(
		[]string{"show one", "bogus command", "show three"},
		opoptions.WithStopOnFailed(),
	)
	if err != nil {
		t.Fatalf("SendCommands: %s", err)
	}

	dev.mu.Lock()
	lines := append([]string(nil), dev.lines...)
	dev.mu.Unlock()

	if m.Failed == nil || len(m.Responses) != 2 || len(lines) != 2 {
		t.Fatalf(
			"second command's output %q contains failure string %q (driver list %q) and "+
				"stop-on-failed is set: want multi failed, 2 responses, 2 lines sent; "+
				"got Failed=%v, %d responses, lines sent %q",
			m.Responses[1].Result, fw[1], fw, m.Failed, len(m.Responses), lines,
		)
	}
}

// control (passes): the same two strings in the other order do mark the response failed, so the
// outcome depends on where in the list the empty string stands.
func TestHuntH1ControlEmptyStringLast(t *testing.T) {
	d := huntH1Driver(t, nil)

	fw := []string{"% Invalid input detected", ""}

	r, err := d.SendCommand("bogus command", opoptions.WithFailedWhenContains(fw))
	if err != nil {
		t.Fatalf("SendCommand: %s", err)
	}

	if r.Failed == nil {
		t.Fatalf("control: response not marked failed")
	}
}
