// Finding F20 (properties C07 / C16): Standard.Close returned io.EOF from session.Close() when the peer had closed the session first and
// never closed the client (demonstration by a review sub-agent).
//   /verif/findings/run.sh f20_standard_close_after_peer_closed_test.go transport TestDefect4.*
package transport_test

// C16 defect 4 -- standard (crypto/ssh) transport: Close after the peer has closed the session.
//
// Every ssh server answers the "exit" that ends a CLI session (all the network platform
// definitions send it from their on-close) by closing the session *channel*; OpenSSH style servers
// then leave it to the client to disconnect. crypto/ssh answers the peer's channel close itself,
// so when Standard.Close then calls session.Close() that returns io.EOF ("already closed") --
// and Standard.Close returns right there: the error goes up to the caller, the ssh client (the
// TCP connection, crypto/ssh's goroutines) is never closed, and IsAlive keeps saying true.
//
// Over an ideal pipe (and over the system and telnet transports) the same history -- peer ends
// the session, reader sees EOF, Close -- closes the transport and returns nil; the property's
// last clause asks for the same result over every transport.
//
// drop into: transport/      run: go test -vet=off -count=1 -run 'TestDefect4' ./transport/

import (
	"bytes"
	"crypto/ed25519"
	"crypto/rand"
	"net"
	"os/exec"
	"sync"
	"testing"
	"time"

	"golang.org/x/crypto/ssh"

	"github.com/scrapli/scrapligo/driver/generic"
	"github.com/scrapli/scrapligo/driver/options"
	"github.com/scrapli/scrapligo/logging"
	"github.com/scrapli/scrapligo/transport"
)

type d4Server struct {
	port int

	// closed when the server has closed the session channel (after "exit")
	sessionClosed chan struct{}
	// closed when the client's ssh connection is gone
	connGone chan struct{}
}

// d4StartServer is a one-connection device: pty + shell granted, a prompt, echo, every line is
// answered with a fresh prompt, "exit" is answered like sshd does: exit-status, close of the
// session channel -- the connection stays until the client disconnects.
func d4StartServer(t *testing.T) *d4Server {
	t.Helper()

	_, priv, err := ed25519.GenerateKey(rand.Reader)
	if err != nil {
		t.Fatal(err)
	}

	signer, err := ssh.NewSignerFromKey(priv)
	if err != nil {
		t.Fatal(err)
	}

	cfg := &ssh.ServerConfig{NoClientAuth: true}
	cfg.AddHostKey(signer)

	l, err := net.Listen("tcp", "127.0.0.1:0")
	if err != nil {
		t.Fatal(err)
	}

	t.Cleanup(func() { _ = l.Close() })

	s := &d4Server{
		port:          l.Addr().(*net.TCPAddr).Port,
		sessionClosed: make(chan struct{}),
		connGone:      make(chan struct{}),
	}

	go func() {
		c, err := l.Accept()
		if err != nil {
			return
		}

		sc, chans, reqs, err := ssh.NewServerConn(c, cfg)
		if err != nil {
			return
		}

		go ssh.DiscardRequests(reqs)

		go func() {
			_ = sc.Wait()

			close(s.connGone)
		}()

		nc, ok := <-chans
		if !ok {
			return
		}

		ch, creqs, err := nc.Accept()
		if err != nil {
			return
		}

		go func() {
			for r := range creqs {
				if r.WantReply {
					_ = r.Reply(true, nil)
				}
			}
		}()

		_, _ = ch.Write([]byte("router#"))

		var (
			line bytes.Buffer
			once sync.Once
		)

		buf := make([]byte, 4096)

		for {
			n, err := ch.Read(buf)

			for _, b := range buf[:n] {
				if b != '\n' {
					_, _ = ch.Write([]byte{b})
					line.WriteByte(b)

					continue
				}

				if line.String() == "exit" {
					_, _ = ch.Write([]byte("\r\n"))
					_, _ = ch.SendRequest("exit-status", false, []byte{0, 0, 0, 0})
					_ = ch.Close()

					once.Do(func() { close(s.sessionClosed) })

					return
				}

				line.Reset()

				_, _ = ch.Write([]byte("\r\nrouter#"))
			}

			if err != nil {
				return
			}
		}
	}()

	return s
}

func TestDefect4_StandardCloseAfterPeerClosedTheSession(t *testing.T) {
	s := d4StartServer(t)

	lg, err := logging.NewInstance()
	if err != nil {
		t.Fatal(err)
	}

	tp, err := transport.NewTransport(
		lg, "127.0.0.1", transport.StandardTransport,
		options.WithPort(s.port),
		options.WithAuthNoStrictKey(),
		options.WithAuthUsername("u"),
	)
	if err != nil {
		t.Fatal(err)
	}

	if err = tp.Open(); err != nil {
		t.Fatal(err)
	}

	if err = tp.Write([]byte("exit\n")); err != nil {
		t.Fatal(err)
	}

	// read to the end: prompt, echo, then EOF once the peer has closed the session
	for {
		_, err = tp.Read()
		if err != nil {
			break
		}
	}

	<-s.sessionClosed

	// the peer's close follows its EOF on the wire, let it arrive
	time.Sleep(200 * time.Millisecond)

	if err = tp.Close(false); err != nil {
		t.Errorf("Close returned %v", err)
	}

	if tp.IsAlive() {
		t.Errorf("IsAlive is true after Close")
	}

	select {
	case <-s.connGone:
	case <-time.After(2 * time.Second):
		t.Errorf("the ssh connection is still open 2s after Close")
	}
}

// the same through a driver: open, send a command, close -- with the on-close every network
// platform has ("exit"). The schedule is forced: on-close returns once the device has closed the
// session (on a LAN that takes less than the 62.5ms the channel waits for its read loop anyway).
func TestDefect4_DriverCloseEndToEnd(t *testing.T) {
	for _, tt := range []string{transport.SystemTransport, transport.StandardTransport} {
		t.Run(tt, func(t *testing.T) {
			if tt == transport.SystemTransport {
				// the control: same device, same history, the other ssh transport
				if _, err := exec.LookPath("ssh"); err != nil {
					t.Skip("no ssh binary")
				}
			}

			s := d4StartServer(t)

			d, err := generic.NewDriver(
				"127.0.0.1",
				options.WithPort(s.port),
				options.WithTransportType(tt),
				options.WithAuthNoStrictKey(),
				options.WithAuthUsername("u"),
				options.WithTimeoutOps(3*time.Second),
				options.WithOnClose(func(d *generic.Driver) error {
					err := d.Channel.WriteAndReturn([]byte("exit"), false)

					<-s.sessionClosed
					time.Sleep(200 * time.Millisecond)

					return err
				}),
			)
			if err != nil {
				t.Fatal(err)
			}

			if err = d.Open(); err != nil {
				t.Fatal(err)
			}

			if _, err = d.SendCommand("show version"); err != nil {
				t.Fatal(err)
			}

			if err = d.Close(); err != nil {
				t.Errorf("driver Close returned %v", err)
			}

			select {
			case <-s.connGone:
			case <-time.After(2 * time.Second):
				t.Errorf("the ssh connection is still open 2s after the driver was closed")
			}
		})
	}
}
