// Finding F10 (property C02): a NETCONF 1.1 reply whose end-of-chunks marker ("\n##\n") is missing - truncated after the
// last chunk, or cut in the middle of the marker - decodes as if it were complete: Failed stays nil.
//   /verif/findings/run.sh f10_missing_terminator_test.go response TestFindingF10
package response

import "testing"

func TestFindingF10(t *testing.T) {
	for _, raw := range []string{
		"#5\nhello",           // nothing after the chunk
		"\n#5\nhello\n",       // newline, no marker
		"\n#5\nhello\n#5\n ok!!", // two chunks, no marker
	} {
		r := NewNetconfResponse(nil, nil, "h", 830, "1.1")
		r.Record([]byte(raw))
		if r.Failed == nil {
			t.Errorf("raw %q (no end-of-chunks marker): not marked failed, Result %q", raw, r.Result)
		}
	}
	// the complete message still decodes
	r := NewNetconfResponse(nil, nil, "h", 830, "1.1")
	r.Record([]byte("\n#5\nhello\n##\n"))
	if r.Failed != nil || r.Result != "hello" {
		t.Errorf("complete message: Failed %v Result %q", r.Failed, r.Result)
	}
}
