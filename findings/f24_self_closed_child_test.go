package netconf_test

// defect 2 (C03): with self-closing tags forced, an element that is ALREADY self-closed, carries an
// attribute (or just a space before "/>") and is the last child of a parent of the same name, is
// taken for an empty "<a ...></a>" pair: the parent's end tag is eaten and a second slash is
// written. What goes on the wire is not well-formed XML and the caller's configuration / filter is
// altered.
//
// drop into driver/netconf, run: go test -vet=off -count=1 -run 'TestHuntB2' ./driver/netconf/

import (
	"bytes"
	"encoding/xml"
	"errors"
	"fmt"
	"io"
	"strconv"
	"strings"
	"sync"
	"testing"
	"time"

	"github.com/scrapli/scrapligo/driver/netconf"
	"github.com/scrapli/scrapligo/driver/options"
	"github.com/scrapli/scrapligo/transport"
)

const huntB2Hello = `<?xml version="1.0" encoding="UTF-8"?>
<hello xmlns="urn:ietf:params:xml:ns:netconf:base:1.0">
<capabilities>
<capability>urn:ietf:params:netconf:base:1.0</capability>
<capability>urn:ietf:params:netconf:base:1.1</capability>
</capabilities>
<session-id>25</session-id></hello>]]>]]>`

type huntB2Transport struct {
	mu      sync.Mutex
	pending [][]byte
	wbuf    []byte
	written []byte
	nextID  int
	closed  chan struct{}
	once    sync.Once
}

func newHuntB2Transport() *huntB2Transport {
	return &huntB2Transport{
		pending: [][]byte{[]byte(huntB2Hello)},
		nextID:  101,
		closed:  make(chan struct{}),
	}
}

func (t *huntB2Transport) Open(_ *transport.Args) error { return nil }

func (t *huntB2Transport) Close() error {
	t.once.Do(func() { close(t.closed) })

	return nil
}

func (t *huntB2Transport) IsAlive() bool { return true }

func (t *huntB2Transport) Read(_ int) ([]byte, error) {
	for {
		t.mu.Lock()
		if len(t.pending) > 0 {
			b := t.pending[0]
			t.pending = t.pending[1:]
			t.mu.Unlock()

			return b, nil
		}
		t.mu.Unlock()

		select {
		case <-t.closed:
			return nil, fmt.Errorf("closed")
		case <-time.After(200 * time.Microsecond):
		}
	}
}

// Write records everything and answers every complete rpc with <ok/> in 1.1 framing.
func (t *huntB2Transport) Write(b []byte) error {
	t.mu.Lock()
	defer t.mu.Unlock()

	t.written = append(t.written, b...)
	t.wbuf = append(t.wbuf, b...)

	if bytes.Contains(t.wbuf, []byte("</rpc>")) {
		t.wbuf = nil

		reply := `<rpc-reply xmlns="urn:ietf:params:xml:ns:netconf:base:1.0" message-id="` +
			strconv.Itoa(t.nextID) + `"><ok/></rpc-reply>`
		t.nextID++
		t.pending = append(t.pending, []byte(fmt.Sprintf("\n#%d\n%s\n##\n", len(reply), reply)))
	}

	return nil
}

// huntB2WellFormed is an independent check: the whole byte string is one XML document.
func huntB2WellFormed(b []byte) error {
	dec := xml.NewDecoder(bytes.NewReader(b))
	dec.Strict = true

	depth, roots := 0, 0

	for {
		tok, err := dec.Token()
		if errors.Is(err, io.EOF) {
			break
		}

		if err != nil {
			return err
		}

		switch tok.(type) {
		case xml.StartElement:
			if depth == 0 {
				roots++
			}

			depth++
		case xml.EndElement:
			depth--
		}
	}

	if depth != 0 || roots != 1 {
		return fmt.Errorf("depth %d, %d root elements", depth, roots)
	}

	return nil
}

func TestHuntB2ForceSelfClosingEatsParentEndTag(t *testing.T) {
	// e.g. openconfig style: container "config" inside list entry... any model where a child has
	// its parent's name will do; the attribute is the usual nc:operation.
	config := `<config><top xmlns="urn:example"><group><group operation="delete"/></group>` +
		`<leaf>value</leaf></top></config>`

	tr := newHuntB2Transport()

	d, err := netconf.NewDriver(
		"dummy",
		options.WithCustomTransport(tr),
		options.WithNetconfPreferredVersion("1.1"),
		options.WithNetconfForceSelfClosingTags(),
		options.WithReadDelay(0),
		options.WithTimeoutOps(3*time.Second),
	)
	if err != nil {
		t.Fatalf("new driver: %s", err)
	}

	if err = d.Open(); err != nil {
		t.Fatalf("open: %s", err)
	}

	defer d.Close() //nolint:errcheck

	r, err := d.EditConfig("candidate", config)
	if err != nil {
		t.Fatalf("edit-config: %s", err)
	}

	if werr := huntB2WellFormed(r.Input); werr != nil {
		t.Errorf("request is not well-formed XML: %s\nrequest: %s", werr, r.Input)
	}

	// forcing self-closing tags may only change what it names (empty pairs); this payload has none
	// inside the configuration, so the configuration must be on the wire unaltered.
	tr.mu.Lock()
	wire := string(tr.written)
	tr.mu.Unlock()

	if !strings.Contains(wire, config) {
		t.Errorf("caller's configuration is not on the wire unaltered\nconfig: %s\nwire:   %s", config, wire)
	}
}

func TestHuntB2ForceSelfClosingFunction(t *testing.T) {
	for _, in := range []string{
		`<a><a x="1"/></a>`,
		`<a><a /></a>`,
		"<group>\n  <group operation=\"delete\"/>\n</group>",
	} {
		out := netconf.ForceSelfClosingTags([]byte(in))

		if werr := huntB2WellFormed(out); werr != nil {
			t.Errorf("ForceSelfClosingTags(%q) = %q: not well-formed: %s", in, out, werr)
		}
	}
}
