package platform_test

// Defect 4 (property C11): the enable/sudo secret reaches the user's loggers and the channel log
// during a privilege escalation on the shipped cumulus_linux platform.
//
// assets/platforms/cumulus_linux.yaml declares the escalation prompt of "sudo su" as the bare,
// unanchored regular expression ": ". Channel.SendInteractive therefore takes ANY output that
// contains a colon followed by a blank for the password prompt and types the secret at once. sudo's
// very common warning line
//
//	sudo: unable to resolve host leaf01: Name or service not known
//
// is printed before sudo (PAM) has switched the terminal to no-echo and printed its real prompt
// "[sudo] password for cumulus: ". If that line is read on its own (a legal read segmentation), the
// secret is typed while the terminal still echoes, comes back in the byte stream and is logged by
// "channel read ..." (debug) and written to the ChannelLog.
//
// The device model below is a plain tty: it echoes what is typed unless the foreground program has
// switched echo off; sudo switches echo off (and flushes type-ahead, TCSAFLUSH) immediately before
// it prints its password prompt. It NEVER echoes what is typed at the password prompt - the control
// sub test (warning line and prompt arrive together) shows that: no leak, escalation succeeds.
//
// drop into: platform/     run: go test -vet=off -count=1 -run 'TestHuntG_D4' ./platform/

import (
	"bytes"
	"io"
	"strings"
	"sync"
	"testing"
	"time"

	"github.com/scrapli/scrapligo/driver/options"
	"github.com/scrapli/scrapligo/logging"
	"github.com/scrapli/scrapligo/platform"
	"github.com/scrapli/scrapligo/transport"
)

const (
	d4Secret   = "Zq%v9$u(x)+[7"
	d4Prompt   = "cumulus@leaf01:mgmt:~$ "
	d4RootPrmt = "root@leaf01:mgmt:/home/cumulus# "
	d4Warning  = "sudo: unable to resolve host leaf01: Name or service not known\r\n"
	d4SudoPrmt = "[sudo] password for cumulus: "
)

type d4TTY struct {
	gap time.Duration // time sudo needs between its warning line and its password prompt

	out    chan []byte
	closed chan struct{}
	once   sync.Once

	mu   sync.Mutex
	echo bool
	mode string // "shell", "sudo-init", "sudo-password", "root"
	line []byte
}

func newD4TTY(gap time.Duration) *d4TTY {
	return &d4TTY{
		gap:    gap,
		out:    make(chan []byte, 4096),
		closed: make(chan struct{}),
		echo:   true,
		mode:   "shell",
	}
}

func (d *d4TTY) Open(_ *transport.Args) error {
	d.out <- []byte("Welcome to Cumulus Linux\r\n" + d4Prompt)

	return nil
}

func (d *d4TTY) Close() error {
	d.once.Do(func() { close(d.closed) })

	return nil
}

func (d *d4TTY) IsAlive() bool { return true }

func (d *d4TTY) Read(_ int) ([]byte, error) {
	select {
	case b := <-d.out:
		return b, nil
	case <-d.closed:
		return nil, io.EOF
	}
}

func (d *d4TTY) GetInChannelAuthType() transport.InChannelAuthType {
	return transport.InChannelAuthSSH
}

func (d *d4TTY) GetSSHArgs() *transport.SSHArgs { return &transport.SSHArgs{} }

// sudoPrompt is what sudo does once it is ready to ask: echo off, type-ahead flushed, prompt printed.
func (d *d4TTY) sudoPrompt() {
	d.echo = false
	d.line = nil
	d.mode = "sudo-password"
	d.out <- []byte(d4SudoPrmt)
}

func (d *d4TTY) Write(b []byte) error {
	d.mu.Lock()
	defer d.mu.Unlock()

	// the tty echoes what arrives in one write in one piece
	if d.echo {
		d.out <- bytes.ReplaceAll(b, []byte("\n"), []byte("\r\n"))
	}

	for _, c := range b {

		if c != '\n' {
			d.line = append(d.line, c)

			continue
		}

		line := string(d.line)
		d.line = nil

		switch d.mode {
		case "shell":
			if line == "sudo su" {
				if d.gap == 0 {
					// warning and prompt leave sudo back to back and are read together
					d.echo = false
					d.mode = "sudo-password"
					d.out <- []byte(d4Warning + d4SudoPrmt)
				} else {
					d.mode = "sudo-init"
					d.out <- []byte(d4Warning)

					time.AfterFunc(d.gap, func() {
						d.mu.Lock()
						defer d.mu.Unlock()

						d.sudoPrompt()
					})
				}
			} else {
				d.out <- []byte(d4Prompt)
			}
		case "sudo-init":
			// type-ahead: echoed by the tty (above), thrown away when sudo flushes the input
		case "sudo-password":
			d.echo = true

			if line == d4Secret {
				d.mode = "root"
				d.out <- []byte("\r\n" + d4RootPrmt)
			} else {
				d.mode = "shell"
				d.out <- []byte("\r\nSorry, try again.\r\nsudo: 1 incorrect password attempt\r\n" + d4Prompt)
			}
		case "root":
			d.out <- []byte(d4RootPrmt)
		}
	}

	return nil
}

type d4Logs struct {
	mu sync.Mutex
	m  []string
}

func (l *d4Logs) add(a ...interface{}) {
	l.mu.Lock()
	defer l.mu.Unlock()

	for _, x := range a {
		if s, ok := x.(string); ok {
			l.m = append(l.m, s)
		}
	}
}

func (l *d4Logs) leaks(secret string) []string {
	l.mu.Lock()
	defer l.mu.Unlock()

	var out []string

	for _, s := range l.m {
		if strings.Contains(s, secret) {
			out = append(out, s)
		}
	}

	return out
}

type d4Buf struct {
	mu sync.Mutex
	b  bytes.Buffer
}

func (b *d4Buf) Write(p []byte) (int, error) {
	b.mu.Lock()
	defer b.mu.Unlock()

	return b.b.Write(p)
}

func (b *d4Buf) String() string {
	b.mu.Lock()
	defer b.mu.Unlock()

	return b.b.String()
}

func d4Run(t *testing.T, gap time.Duration) (escalateErr error, logLeaks []string, chanLogLeak bool) {
	t.Helper()

	logs := &d4Logs{}
	chanLog := &d4Buf{}

	l, err := logging.NewInstance(logging.WithLevel(logging.Debug), logging.WithLogger(logs.add))
	if err != nil {
		t.Fatal(err)
	}

	tty := newD4TTY(gap)

	p, err := platform.NewPlatform(
		"cumulus_linux",
		"leaf01",
		options.WithCustomTransport(tty),
		options.WithAuthUsername("cumulus"),
		options.WithAuthPassword("login-password"),
		options.WithAuthSecondary(d4Secret),
		options.WithLogger(l),
		options.WithChannelLog(chanLog),
		options.WithTimeoutOps(time.Second),
	)
	if err != nil {
		t.Fatal(err)
	}

	d, err := p.GetNetworkDriver()
	if err != nil {
		t.Fatal(err)
	}

	done := make(chan struct{})

	go func() {
		defer close(done)

		err = d.Open()
		if err != nil {
			return
		}

		escalateErr = d.AcquirePriv("configuration")

		_ = d.Channel.Close()
	}()

	select {
	case <-done:
	case <-time.After(20 * time.Second):
		t.Fatal("watchdog: open / escalation did not finish")
	}

	if err != nil {
		t.Fatalf("open failed: %v", err)
	}

	return escalateErr, logs.leaks(d4Secret), strings.Contains(chanLog.String(), d4Secret)
}

func TestHuntG_D4_CumulusSudoSecretNotLogged(t *testing.T) {
	t.Run("control-warning-and-prompt-together", func(t *testing.T) {
		escalateErr, leaks, chanLeak := d4Run(t, 0)
		if escalateErr != nil {
			t.Fatalf("control: escalation failed: %v", escalateErr)
		}

		if len(leaks) > 0 || chanLeak {
			t.Fatalf("control: secret leaked: %q chanlog=%v", leaks, chanLeak)
		}
	})

	t.Run("warning-line-read-before-prompt", func(t *testing.T) {
		escalateErr, leaks, chanLeak := d4Run(t, 100*time.Millisecond)

		t.Logf("escalation result: %v", escalateErr)

		for _, m := range leaks {
			t.Errorf("secondary secret in a message given to the user's logger: %s", m)
		}

		if chanLeak {
			t.Errorf("secondary secret written to the channel log")
		}
	})
}
