package transport_test

// F25 (C10, C16): when the telnet negotiation phase fails after the TCP connection was established (the server
// accepts and hangs up, or a read error other than the deadline), Telnet.Open returns the error but leaves the
// socket open: nothing above it closes the transport when Transport.Open fails (Channel.Open returns before its
// cleanup is installed), so every failed open leaks a file descriptor, and IsAlive() keeps reporting true.
//
// run: findings/run.sh f25_telnet_open_leaks_socket_test.go transport TestF25TelnetFailedOpenLeavesNoSocket

import (
	"net"
	"os"
	"testing"
	"time"

	"github.com/scrapli/scrapligo/transport"
)

func f25OpenFDs(t *testing.T) int {
	t.Helper()

	es, err := os.ReadDir("/proc/self/fd")
	if err != nil {
		t.Skipf("no /proc/self/fd: %v", err)
	}

	return len(es)
}

func TestF25TelnetFailedOpenLeavesNoSocket(t *testing.T) {
	l, err := net.Listen("tcp", "127.0.0.1:0")
	if err != nil {
		t.Fatal(err)
	}
	defer l.Close()

	go func() {
		for {
			c, aerr := l.Accept()
			if aerr != nil {
				return
			}
			// the server hangs up at once: the client's first negotiation read ends with EOF
			_ = c.Close()
		}
	}()

	port := l.Addr().(*net.TCPAddr).Port

	const attempts = 40

	before := f25OpenFDs(t)

	for i := 0; i < attempts; i++ {
		args, aerr := transport.NewArgs(nil, "127.0.0.1")
		if aerr != nil {
			t.Fatal(aerr)
		}

		args.Port = port
		args.TimeoutSocket = 2 * time.Second

		tn, terr := transport.NewTelnetTransport(&transport.TelnetArgs{})
		if terr != nil {
			t.Fatal(terr)
		}

		if oerr := tn.Open(args); oerr == nil {
			t.Fatalf("attempt %d: Open succeeded against a server that hangs up", i)
		}
	}

	time.Sleep(100 * time.Millisecond)

	after := f25OpenFDs(t)
	if after-before > attempts/4 {
		t.Fatalf("%d failed telnet opens left %d file descriptors open (before %d, after %d)", attempts, after-before, before, after)
	}
}
