// Finding F9 (properties C07 / C06): after a persistent non-EOF read error the reader goroutine sits in
// `c.Errs <- err` until an operation picks the error up; Channel.Close starts with close(c.Errs), so a Close in that
// state makes the reader panic with "send on closed channel" - in a library goroutine, which brings the process down.
//   /verif/findings/run.sh f9_close_after_read_error_test.go channel TestFindingF9
package channel

import (
	"errors"
	"testing"
	"time"

	"github.com/scrapli/scrapligo/logging"
	"github.com/scrapli/scrapligo/transport"
)

type f9Impl struct{}

func (f9Impl) Open(*transport.Args) error { return nil }
func (f9Impl) Close() error               { return nil }
func (f9Impl) IsAlive() bool              { return true }
func (f9Impl) Write([]byte) error         { return nil }
func (f9Impl) Read(int) ([]byte, error) {
	return nil, errors.New("read /dev/ptmx: input/output error")
}

func TestFindingF9(t *testing.T) {
	l, _ := logging.NewInstance()
	tr, err := transport.NewTransport(l, "localhost", transport.FileTransport)
	if err != nil {
		t.Fatal(err)
	}
	tr.Impl = f9Impl{}
	c, err := NewChannel(l, tr)
	if err != nil {
		t.Fatal(err)
	}
	c.AuthBypass = true
	c.ReadDelay = time.Millisecond
	if err := c.Open(); err != nil {
		t.Fatalf("open: %v", err)
	}
	// the operation in flight gets the error, as C06 asks
	deadline := time.Now().Add(2 * time.Second)
	for {
		if _, err := c.Read(); err != nil {
			break
		}
		if time.Now().After(deadline) {
			t.Fatal("the read error never surfaced")
		}
		time.Sleep(time.Millisecond)
	}
	time.Sleep(50 * time.Millisecond) // the reader has met the error again and offers it on Errs
	// closing the connection after a transport error must not panic in any goroutine (C07); if the process is
	// still alive a little later, it did not
	if err := c.Close(); err != nil {
		t.Fatalf("close: %v", err)
	}
	time.Sleep(100 * time.Millisecond)
}
