// Finding F18 (properties C19 / C14): the platform options auth-strict-key and auth-bypass ignored their value - "auth-strict-key: true"
// switched strict host key checking OFF (demonstration by a review sub-agent).
//   /verif/findings/run.sh f18_strict_key_value_ignored_test.go platform TestHuntDefect1.*
package platform_test

// C19 / C14: the platform option "auth-strict-key" ignores its value.
//
// A platform definition that says   - option: auth-strict-key / value: true   (i.e. "keep strict
// host key checking on") yields a driver whose ssh transport has strict host key checking switched
// OFF; the same happens with "auth-bypass: false", which switches the in-channel auth bypass ON.

import (
	"crypto/ed25519"
	"crypto/rand"
	"net"
	"os"
	"path/filepath"
	"strconv"
	"testing"
	"time"

	"github.com/scrapli/scrapligo/driver/options"
	"github.com/scrapli/scrapligo/platform"
	"github.com/scrapli/scrapligo/transport"
	"golang.org/x/crypto/ssh"
	"golang.org/x/crypto/ssh/knownhosts"
)


func huntDefect1Driver(t *testing.T, strict, bypass string) (strictKey, authBypass bool) {
	t.Helper()

	def := []byte(
		"---\nplatform-type: 'hunt'\ndefault:\n  driver-type: 'generic'\n  options:\n" +
			"    - option: auth-strict-key\n      value: " + strict + "\n" +
			"    - option: auth-bypass\n      value: " + bypass + "\n",
	)

	p, err := platform.NewPlatform(def, "localhost")
	if err != nil {
		t.Fatalf("NewPlatform: %v", err)
	}

	d, err := p.GetGenericDriver()
	if err != nil {
		t.Fatalf("GetGenericDriver: %v", err)
	}

	sys, ok := d.Transport.Impl.(*transport.System)
	if !ok {
		t.Fatalf("expected the default (system) transport, got %T", d.Transport.Impl)
	}

	return sys.SSHArgs.StrictKey, d.Channel.AuthBypass
}

func TestHuntDefect1PlatformAuthStrictKeyValueIgnored(t *testing.T) {
	// sanity: value false does what one expects
	strictKey, _ := huntDefect1Driver(t, "false", "true")
	if strictKey {
		t.Fatalf("auth-strict-key: false left strict key checking on")
	}

	strictKey, authBypass := huntDefect1Driver(t, "true", "false")

	if !strictKey {
		t.Errorf(
			"platform option 'auth-strict-key' with value true DISABLED strict host key " +
				"checking (SSHArgs.StrictKey == false)",
		)
	}

	if authBypass {
		t.Errorf(
			"platform option 'auth-bypass' with value false ENABLED the in channel auth " +
				"bypass (Channel.AuthBypass == true)",
		)
	}
}

// End to end (C14): with "auth-strict-key: true" in the definition and a known hosts file that
// holds ANOTHER key for the server, the connection must fail; it is established.
func TestHuntDefect1StrictKeyTrueConnectsToUnknownHostKey(t *testing.T) {
	newSigner := func() ssh.Signer {
		_, priv, err := ed25519.GenerateKey(rand.Reader)
		if err != nil {
			t.Fatal(err)
		}

		signer, err := ssh.NewSignerFromKey(priv)
		if err != nil {
			t.Fatal(err)
		}

		return signer
	}

	hostSigner, otherSigner := newSigner(), newSigner()

	cfg := &ssh.ServerConfig{
		PasswordCallback: func(_ ssh.ConnMetadata, p []byte) (*ssh.Permissions, error) {
			if string(p) == "pw" {
				return nil, nil
			}

			return nil, ssh.ErrNoAuth
		},
	}
	cfg.AddHostKey(hostSigner)

	l, err := net.Listen("tcp", "127.0.0.1:0")
	if err != nil {
		t.Fatal(err)
	}

	t.Cleanup(func() { _ = l.Close() })

	go func() {
		for {
			c, aerr := l.Accept()
			if aerr != nil {
				return
			}

			go func() {
				defer c.Close()

				sc, chans, reqs, herr := ssh.NewServerConn(c, cfg)
				if herr != nil {
					return
				}

				defer sc.Close()

				go ssh.DiscardRequests(reqs)

				for nc := range chans {
					ch, creqs, cerr := nc.Accept()
					if cerr != nil {
						return
					}

					go func() {
						for r := range creqs {
							if r.Type == "shell" {
								_, _ = ch.Write([]byte("\nrouter#"))
							}

							if r.WantReply {
								_ = r.Reply(true, nil)
							}
						}
					}()
				}
			}()
		}
	}()

	host, p, _ := net.SplitHostPort(l.Addr().String())
	port, _ := strconv.Atoi(p)

	// known hosts: the server's address with a key that is NOT the server's
	khPath := filepath.Join(t.TempDir(), "known_hosts")
	line := knownhosts.Line([]string{knownhosts.Normalize(l.Addr().String())}, otherSigner.PublicKey())

	err = os.WriteFile(khPath, []byte(line+"\n"), 0o600)
	if err != nil {
		t.Fatal(err)
	}

	def := []byte(
		"---\nplatform-type: 'hunt'\ndefault:\n  driver-type: 'generic'\n  options:\n" +
			"    - option: transport-type\n      value: standard\n" +
			"    - option: auth-strict-key\n      value: true\n",
	)

	pl, err := platform.NewPlatform(
		def,
		host,
		options.WithPort(port),
		options.WithAuthUsername("admin"),
		options.WithAuthPassword("pw"),
		options.WithSSHKnownHostsFile(khPath),
		options.WithTimeoutSocket(5*time.Second),
		options.WithTimeoutOps(5*time.Second),
	)
	if err != nil {
		t.Fatalf("NewPlatform: %v", err)
	}

	d, err := pl.GetGenericDriver()
	if err != nil {
		t.Fatal(err)
	}

	err = d.Open()
	if err == nil {
		_ = d.Close()

		t.Fatalf(
			"definition says auth-strict-key: true, known hosts holds another key for the " +
				"server, and the connection was established anyway",
		)
	}
}
