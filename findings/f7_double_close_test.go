// Finding F7 (property C07): closing a channel a second time panics ("close of closed channel").
//   /verif/findings/run.sh f7_double_close_test.go channel TestFindingF7
package channel

import (
	"testing"

	"github.com/scrapli/scrapligo/logging"
	"github.com/scrapli/scrapligo/transport"
)

func TestFindingF7(t *testing.T) {
	l, _ := logging.NewInstance()
	tr, err := transport.NewTransport(l, "localhost", transport.FileTransport)
	if err != nil {
		t.Fatal(err)
	}
	c, err := NewChannel(l, tr)
	if err != nil {
		t.Fatal(err)
	}
	c.readLoopExited = true // no reader to hand the done signal to: Close takes the direct path
	if err := c.Close(); err != nil {
		t.Fatalf("first close: %v", err)
	}
	defer func() {
		if r := recover(); r != nil {
			t.Fatalf("second Close panicked: %v", r)
		}
	}()
	_ = c.Close()
}
