package netconf_test

// F8 (C05): EstablishPeriodicSubscription sends its RPC with a zero-valued OperationOptions, whose Timeout 0 means
// "maximum" (24 h) to Channel.GetTimeout, so a device that goes silent after the request blocks the call far beyond the
// configured connection-wide timeout. Every other RPC builds its options with NewOperation (Timeout -1 = connection-wide).

import (
	"errors"
	"os"
	"path/filepath"
	"testing"
	"time"

	"github.com/scrapli/scrapligo/driver/netconf"
	"github.com/scrapli/scrapligo/driver/options"
	"github.com/scrapli/scrapligo/transport"
	"github.com/scrapli/scrapligo/util"
)

const f8Hello = `<?xml version="1.0" encoding="UTF-8"?>
<hello xmlns="urn:ietf:params:xml:ns:netconf:base:1.0">
<capabilities>
<capability>urn:ietf:params:netconf:base:1.0</capability>
</capabilities>
<session-id>7</session-id></hello>]]>]]>`

func TestF8SubscriptionHonoursConnectionTimeout(t *testing.T) {
	f := filepath.Join(t.TempDir(), "session.txt")
	if err := os.WriteFile(f, []byte(f8Hello), 0o600); err != nil {
		t.Fatal(err)
	}

	d, err := netconf.NewDriver(
		"dummy",
		options.WithTransportType(transport.FileTransport),
		options.WithFileTransportFile(f),
		options.WithReadDelay(0),
		options.WithTimeoutOps(300*time.Millisecond),
	)
	if err != nil {
		t.Fatal(err)
	}

	if err = d.Open(); err != nil {
		t.Fatal(err)
	}

	errC := make(chan error, 1)
	start := time.Now()

	go func() {
		_, err := d.EstablishPeriodicSubscription("/interfaces", 1000)
		if err == nil {
			err = errors.New("reported success")
		}
		errC <- err
	}()

	select {
	case err := <-errC:
		if !errors.Is(err, util.ErrTimeoutError) {
			t.Fatalf("expected a timeout error, got: %s", err)
		}
		t.Logf("returned %q after %s", err, time.Since(start))
	case <-time.After(3 * time.Second):
		t.Fatalf("still blocked after %s with a 300ms connection-wide timeout", time.Since(start))
	}
}
