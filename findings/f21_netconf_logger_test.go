// Finding F21 (property C19): WithLogger / WithDefaultLogger never reached netconf.Driver.Logger (demonstration by a review sub-agent).
//   /verif/findings/run.sh f21_netconf_logger_test.go driver/netconf TestHuntDefect2.*
package netconf_test

// C19: WithLogger / WithDefaultLogger do not land on the driver that the NETCONF constructor
// returns. netconf.NewDriver hands the logger to the throw-away generic driver only; the
// netconf.Driver's own public Logger field is replaced by a fresh instance without loggers, so
// nothing the NETCONF driver itself logs ("Get RPC requested", "connection closed successfully",
// rpc payloads at debug, ...) ever reaches the user's logger.

import (
	"strings"
	"sync"
	"testing"

	"github.com/scrapli/scrapligo/driver/generic"
	"github.com/scrapli/scrapligo/driver/netconf"
	"github.com/scrapli/scrapligo/driver/options"
	"github.com/scrapli/scrapligo/logging"
	"github.com/scrapli/scrapligo/transport"
)

func TestHuntDefect2NetconfDriverIgnoresWithLogger(t *testing.T) {
	var mu sync.Mutex

	var lines []string

	l, err := logging.NewInstance(
		logging.WithLevel(logging.Debug),
		logging.WithLogger(func(a ...interface{}) {
			mu.Lock()
			defer mu.Unlock()

			for _, e := range a {
				if s, ok := e.(string); ok {
					lines = append(lines, s)
				}
			}
		}),
	)
	if err != nil {
		t.Fatal(err)
	}

	// the same option through the generic constructor lands on the returned driver
	gd, err := generic.NewDriver("dummy", options.WithLogger(l))
	if err != nil {
		t.Fatal(err)
	}

	if gd.Logger != l {
		t.Fatalf("generic driver did not get the logger either?!")
	}

	d, err := netconf.NewDriver(
		"dummy",
		options.WithLogger(l),
		options.WithTransportType(transport.FileTransport),
		options.WithFileTransportFile(resolveFile(t, "get-simple.txt")),
		options.WithReadDelay(0),
	)
	if err != nil {
		t.Fatal(err)
	}

	if d.Logger != l {
		t.Errorf(
			"netconf.NewDriver(..., WithLogger(l)): returned driver's Logger is not l "+
				"(it has %d loggers, level %q)", len(d.Logger.Loggers), d.Logger.Level,
		)
	}

	// and the behaviour that follows from it: the messages of the NETCONF driver are lost
	err = d.Open()
	if err != nil {
		t.Fatal(err)
	}

	_, err = d.Get("")
	if err != nil {
		t.Fatal(err)
	}

	_ = d.Close()

	mu.Lock()
	defer mu.Unlock()

	all := strings.Join(lines, "\n")

	if !strings.Contains(all, "channel") && !strings.Contains(all, "transport") {
		t.Fatalf("sanity: expected channel/transport messages in the user's log, got:\n%s", all)
	}

	if !strings.Contains(all, "Get RPC requested") {
		t.Errorf("the NETCONF driver's own message 'Get RPC requested' never reached the " +
			"logger given with WithLogger")
	}
}
