// Finding F19 (properties C07 / C06): NETCONF Close never returned after a connection loss with no RPC in flight: the reader sat in
// `d.errs <- err`, Close in `d.done <- true` (demonstration by a review sub-agent).
//   /verif/findings/run.sh f19_netconf_close_after_loss_test.go driver/netconf TestHuntD1.*
package netconf_test

// Defect 1 (C06): after the connection is lost, netconf.Driver.Close() hangs forever.
//
// drop into driver/netconf ; go test -vet=off -count=1 -run TestHuntD1 ./driver/netconf/

import (
	"io"
	"sync"
	"syscall"
	"testing"
	"time"

	"github.com/scrapli/scrapligo/driver/netconf"
	"github.com/scrapli/scrapligo/driver/options"
	"github.com/scrapli/scrapligo/transport"
)

type huntD1Event struct {
	b   []byte
	err error
}

// huntD1Transport is a scripted device: Read hands out the queued events one per call and blocks
// when there is nothing queued; once "lost" is set every Read returns that error (a dead
// connection keeps reporting it).
type huntD1Transport struct {
	in       chan huntD1Event
	closed   chan struct{}
	closeOne sync.Once

	mu   sync.Mutex
	lost error
}

func newHuntD1Transport() *huntD1Transport {
	return &huntD1Transport{
		in:     make(chan huntD1Event, 64),
		closed: make(chan struct{}),
	}
}

func (f *huntD1Transport) Open(_ *transport.Args) error { return nil }

func (f *huntD1Transport) Close() error {
	f.closeOne.Do(func() { close(f.closed) })

	return nil
}

func (f *huntD1Transport) IsAlive() bool { return true }

func (f *huntD1Transport) Read(_ int) ([]byte, error) {
	f.mu.Lock()
	lost := f.lost
	f.mu.Unlock()

	if lost != nil {
		return nil, lost
	}

	select {
	case ev := <-f.in:
		if ev.err != nil {
			f.mu.Lock()
			f.lost = ev.err
			f.mu.Unlock()
		}

		return ev.b, ev.err
	case <-f.closed:
		return nil, io.EOF
	}
}

func (f *huntD1Transport) Write(_ []byte) error { return nil }

const huntD1Hello = `<?xml version="1.0" encoding="UTF-8"?>
<hello xmlns="urn:ietf:params:xml:ns:netconf:base:1.0">
<capabilities>
<capability>urn:ietf:params:netconf:base:1.0</capability>
</capabilities>
<session-id>7</session-id>
</hello>]]>]]>`

func huntD1Run(t *testing.T, loss error, rpcAfterLoss bool) {
	ft := newHuntD1Transport()

	d, err := netconf.NewDriver(
		"dummy",
		options.WithCustomTransport(ft),
		options.WithTimeoutOps(2*time.Second),
	)
	if err != nil {
		t.Fatalf("new driver: %s", err)
	}

	ft.in <- huntD1Event{b: []byte(huntD1Hello)}

	err = d.Open()
	if err != nil {
		t.Fatalf("open: %s", err)
	}

	if loss != nil {
		// the connection is lost while the session is idle.
		ft.in <- huntD1Event{err: loss}
	}

	time.Sleep(200 * time.Millisecond)

	if rpcAfterLoss {
		// an rpc after the loss does report an error, promptly -- that part is fine.
		start := time.Now()

		_, rpcErr := d.GetConfig("running")
		if rpcErr == nil {
			t.Fatalf("rpc after connection loss reported success")
		}

		if time.Since(start) > time.Second {
			t.Fatalf("rpc after connection loss took %s", time.Since(start))
		}

		time.Sleep(200 * time.Millisecond)
	}

	closed := make(chan error, 1)

	go func() {
		closed <- d.Close()
	}()

	select {
	case <-closed:
		// an error or nil are both acceptable, a hang is not.
	case <-time.After(3 * time.Second):
		t.Fatalf(
			"netconf Driver.Close() still blocked 3s after the connection was lost (%v): "+
				"hangs forever", loss,
		)
	}
}

func TestHuntD1NetconfCloseAfterEOFHangs(t *testing.T) {
	huntD1Run(t, io.EOF, false)
}

func TestHuntD1NetconfCloseAfterEOFAndFailedRPCHangs(t *testing.T) {
	huntD1Run(t, io.EOF, true)
}

func TestHuntD1NetconfCloseAfterReadErrorHangs(t *testing.T) {
	huntD1Run(t, syscall.EIO, false)
}

// control: with a healthy connection the same Close returns at once.
func TestHuntD1ControlCloseHealthy(t *testing.T) {
	huntD1Run(t, nil, false)
}
