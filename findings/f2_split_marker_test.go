// Finding F2 (property C02): an rpc-error marker cut by a NETCONF 1.1 chunk boundary is not flagged.
// Run (in-package test injected through an overlay, nothing is written to /repo):
//   /verif/findings/run.sh f2_split_marker_test.go response TestFindingF2
package response

import "testing"

func TestFindingF2(t *testing.T) {
	payload := "<rpc-reply><rpc-error><error-severity>error</error-severity></rpc-error></rpc-reply>"
	one := "\n#" + itoa(len(payload)) + "\n" + payload + "\n##\n"
	// the same payload in three legal chunks whose boundaries cut "<rpc-error>" and "</rpc-error>"
	a, b, c := payload[:16], payload[16:70], payload[70:]
	three := "\n#" + itoa(len(a)) + "\n" + a + "\n#" + itoa(len(b)) + "\n" + b + "\n#" + itoa(len(c)) + "\n" + c + "\n##\n"
	r1 := NewNetconfResponse(nil, nil, "h", 830, "1.1")
	r1.Record([]byte(one))
	r3 := NewNetconfResponse(nil, nil, "h", 830, "1.1")
	r3.Record([]byte(three))
	if r1.Result != payload || r3.Result != payload {
		t.Fatalf("decoding differs: %q / %q", r1.Result, r3.Result)
	}
	if r1.Failed == nil {
		t.Fatalf("single chunk reply with rpc-error not marked failed")
	}
	if r3.Failed == nil {
		t.Fatalf("same payload in three chunks (marker cut by chunk boundaries) is NOT marked failed; chunks %q %q %q", a, b, c)
	}
}

func itoa(n int) string {
	s := ""
	for n > 0 {
		s = string(rune('0'+n%10)) + s
		n /= 10
	}
	return s
}
