// Finding F5 (property C17): the advertised platform name "ruijie_rgos" has no embedded definition.
//   /verif/findings/run.sh f5_ruijie_asset_test.go platform TestFindingF5
package platform

import "testing"

func TestFindingF5(t *testing.T) {
	for _, n := range GetPlatformNames() {
		if _, err := loadPlatformDefinitionFromAssets(n); err != nil {
			t.Errorf("advertised platform %q does not load from the embedded assets: %v", n, err)
		}
	}
}
