// Candidate (property C02): NETCONF 1.0, the newline a server sends after "]]>]]>" arrives in a later read than the
// delimiter and so starts the NEXT reply's buffer; record1dot0 trims the XML declaration before it trims white space,
// so that reply keeps its declaration in Result.
//   /verif/findings/run.sh f12_declaration_kept_test.go driver/netconf TestFindingF12
package netconf_test

import (
	"os"
	"path/filepath"
	"strings"
	"testing"
	"time"

	"github.com/scrapli/scrapligo/driver/netconf"
	"github.com/scrapli/scrapligo/driver/options"
	"github.com/scrapli/scrapligo/transport"
)

func TestFindingF12(t *testing.T) {
	hello := `<?xml version="1.0" encoding="UTF-8"?>
<hello xmlns="urn:ietf:params:xml:ns:netconf:base:1.0">
<capabilities>
<capability>urn:ietf:params:netconf:base:1.0</capability>
</capabilities>
<session-id>7</session-id></hello>]]>]]>`
	decl := `<?xml version="1.0" encoding="UTF-8"?>`
	r1 := decl + `<rpc-reply xmlns="urn:ietf:params:xml:ns:netconf:base:1.0" message-id="101"><ok/></rpc-reply>`
	r2 := decl + `<rpc-reply xmlns="urn:ietf:params:xml:ns:netconf:base:1.0" message-id="102"><ok/></rpc-reply>`
	// a server that ends every message with the delimiter and a newline, as most do
	f := filepath.Join(t.TempDir(), "session.txt")
	if err := os.WriteFile(f, []byte(hello+"\n"+r1+"]]>]]>\n"+r2+"]]>]]>\n"), 0o600); err != nil {
		t.Fatal(err)
	}
	d, err := netconf.NewDriver("dummy",
		options.WithTransportType(transport.FileTransport),
		options.WithFileTransportFile(f),
		options.WithReadDelay(0),
		options.WithTimeoutOps(2*time.Second),
	)
	if err != nil {
		t.Fatal(err)
	}
	if err := d.Open(); err != nil {
		t.Fatalf("open: %v", err)
	}
	for i, want := range []string{r1, r2} {
		r, err := d.Lock("candidate")
		if err != nil {
			t.Fatalf("lock %d: %v", i, err)
		}
		if strings.HasPrefix(r.Result, "<?xml") {
			t.Errorf("reply %d keeps its XML declaration: %q", i+1, r.Result)
		}
		if r.Result != strings.TrimPrefix(want, decl) {
			t.Errorf("reply %d: result %q", i+1, r.Result)
		}
	}
}
