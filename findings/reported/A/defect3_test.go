package generic_test

// Defect 3 (C01 "carriage returns and complete terminal escape sequences removed"): complete,
// standard escape sequences that the strip expression does not know are left in (or half removed
// from) the byte stream: CSI sequences whose final byte is not in its list (save/restore cursor
// `ESC[s` `ESC[u`, erase characters `ESC[nX`, line position `ESC[nd`, scroll `ESC[nS`, ...) and
// OSC strings (window title) whose text holds anything but letters, digits and ';' or that end in
// ST. The result then carries ESC bytes / stray letters, or the prompt is no longer found at all.
//
// drop into: driver/generic/    run: go test -vet=off -count=1 -run 'TestHuntD3' ./driver/generic/

import (
	"regexp"
	"strings"
	"sync"
	"testing"
	"time"

	"github.com/scrapli/scrapligo/driver/generic"
	"github.com/scrapli/scrapligo/driver/options"
	"github.com/scrapli/scrapligo/transport"
	"github.com/scrapli/scrapligo/util"
)

type huntD3Dev struct {
	mu sync.Mutex

	out     [][]byte
	line    []byte
	prompt  string
	answers map[string]string
}

func (d *huntD3Dev) Open(_ *transport.Args) error { return nil }
func (d *huntD3Dev) Close() error                 { return nil }
func (d *huntD3Dev) IsAlive() bool                { return true }

func (d *huntD3Dev) Read(n int) ([]byte, error) {
	d.mu.Lock()
	defer d.mu.Unlock()

	if len(d.out) == 0 {
		d.mu.Unlock()
		time.Sleep(time.Millisecond)
		d.mu.Lock()

		return nil, nil
	}

	// every chunk is handed over whole: no escape sequence is ever cut by a read.
	b := d.out[0]
	d.out = d.out[1:]

	_ = n

	return b, nil
}

func (d *huntD3Dev) Write(b []byte) error {
	d.mu.Lock()
	defer d.mu.Unlock()

	for _, ch := range b {
		if ch != '\n' {
			d.line = append(d.line, ch)
			d.out = append(d.out, []byte{ch})

			continue
		}

		line := string(d.line)
		d.line = nil

		resp := "\r\n"
		if a, ok := d.answers[line]; ok {
			resp += a + "\r\n"
		}

		d.out = append(d.out, []byte(resp+d.prompt))
	}

	return nil
}

func huntD3Run(t *testing.T, dev *huntD3Dev, pattern *regexp.Regexp, cmds []string) []string {
	t.Helper()

	opts := []util.Option{
		options.WithCustomTransport(dev),
		options.WithTimeoutOps(2 * time.Second),
	}

	if pattern != nil {
		opts = append(opts, options.WithPromptPattern(pattern))
	}

	d, err := generic.NewDriver("dummy", opts...)
	if err != nil {
		t.Fatalf("new driver: %v", err)
	}

	err = d.Open()
	if err != nil {
		t.Fatalf("open: %v", err)
	}

	done := make(chan []string, 1)

	go func() {
		var rs []string

		for _, c := range cmds {
			r, sendErr := d.SendCommand(c)
			if sendErr != nil {
				rs = append(rs, "ERROR: "+sendErr.Error())

				continue
			}

			rs = append(rs, r.Result)
		}

		done <- rs
	}()

	select {
	case rs := <-done:
		return rs
	case <-time.After(15 * time.Second):
		t.Fatalf("watchdog: SendCommand did not return")
	}

	return nil
}

// sanity: the sequences the expression does know are removed and the text is returned exactly.
func TestHuntD3KnownSequences(t *testing.T) {
	dev := &huntD3Dev{
		prompt: "\x1b[0m\x1b[?25hsw1#",
		answers: map[string]string{
			"show users": "\x1b[1;32mLine   User\x1b[0m\x1b[K\r\n\x1b[2K vty 0  admin",
		},
	}

	got := huntD3Run(t, dev, nil, []string{"show users"})
	want := "Line   User\n vty 0  admin"

	if got[0] != want {
		t.Fatalf("result %q, want %q", got[0], want)
	}
}

// CSI sequences with a final byte the expression does not list: ESC[s / ESC[u (save / restore
// cursor), ESC[nX (erase n characters), ESC[nd (line position absolute), ESC[nS (scroll up).
func TestHuntD3CSIFinalBytes(t *testing.T) {
	dev := &huntD3Dev{
		prompt: "sw1#",
		answers: map[string]string{
			"show users": "\x1b[sLine   User\x1b[u\r\n\x1b[4X vty 0  admin\x1b[2d\x1b[1S",
		},
	}

	got := huntD3Run(t, dev, nil, []string{"show users"})
	want := "Line   User\n vty 0  admin"

	if strings.Contains(got[0], "\x1b") {
		t.Errorf("result still holds ESC bytes: %q", got[0])
	}

	if got[0] != want {
		t.Errorf("result %q, want %q", got[0], want)
	}
}

// the window title string that Debian based systems (Cumulus, VyOS, ...) put in front of every
// prompt when TERM is xterm: ESC ] 0 ; user@host: dir BEL.
func TestHuntD3OSCWindowTitle(t *testing.T) {
	dev := &huntD3Dev{
		prompt: "\x1b]0;admin@sw1: ~\x07admin@sw1:~$ ",
		answers: map[string]string{
			"uname -s": "Linux",
			"whoami":   "admin",
		},
	}

	got := huntD3Run(
		t, dev, regexp.MustCompile(`(?im)^\S+@\S+:\S+\$\s*$`), []string{"uname -s", "whoami"},
	)

	for i, want := range []string{"Linux", "admin"} {
		if got[i] != want {
			t.Errorf("command %d: result %q, want %q", i+1, got[i], want)
		}
	}
}
