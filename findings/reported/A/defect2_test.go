package generic_test

// Defect 2 (C12 "a plain command's return is sent only after the device has echoed the command",
// and C01 "each send returns exactly that command's output"): the fuzzy echo match is satisfied by
// bytes that were already waiting when the command was written (login banner + first prompt), so
// the return goes out before the device echoed anything and the echo ends up in the result.
//
// drop into: driver/generic/    run: go test -vet=off -count=1 -run 'TestHuntD2' ./driver/generic/

import (
	"bytes"
	"strings"
	"sync"
	"testing"
	"time"

	"github.com/scrapli/scrapligo/driver/generic"
	"github.com/scrapli/scrapligo/driver/opoptions"
	"github.com/scrapli/scrapligo/driver/options"
	"github.com/scrapli/scrapligo/transport"
	"github.com/scrapli/scrapligo/util"
)

// the standard US DoD notice-and-consent banner, as configured on a great many devices.
const huntD2Banner = "You are accessing a U.S. Government (USG) Information System (IS) that is " +
	"provided for USG-authorized use only.\r\n" +
	"By using this IS (which includes any device attached to this IS), you consent to the " +
	"following conditions:\r\n" +
	"-The USG routinely intercepts and monitors communications on this IS for purposes " +
	"including, but not limited to, penetration testing, COMSEC monitoring, network operations " +
	"and defense, personnel misconduct (PM), law enforcement (LE), and counterintelligence (CI) " +
	"investigations.\r\n" +
	"-At any time, the USG may inspect and seize data stored on this IS.\r\n" +
	"-Communications using, or data stored on, this IS are not private, are subject to routine " +
	"monitoring, interception, and search, and may be disclosed or used for any USG-authorized " +
	"purpose.\r\n"

const huntD2Prompt = "rtr1#"

type huntD2Write struct {
	b []byte
	// delivered is everything the device had handed to Read when this write arrived.
	delivered string
}

type huntD2Dev struct {
	mu sync.Mutex

	out       [][]byte
	delivered bytes.Buffer
	line      []byte
	writes    []huntD2Write
	answers   map[string]string
	greeting  string
}

func (d *huntD2Dev) Open(_ *transport.Args) error {
	d.mu.Lock()
	defer d.mu.Unlock()

	d.out = append(d.out, []byte(d.greeting))

	return nil
}

func (d *huntD2Dev) Close() error  { return nil }
func (d *huntD2Dev) IsAlive() bool { return true }

func (d *huntD2Dev) Read(n int) ([]byte, error) {
	d.mu.Lock()
	defer d.mu.Unlock()

	if len(d.out) == 0 {
		d.mu.Unlock()
		time.Sleep(time.Millisecond)
		d.mu.Lock()

		return nil, nil
	}

	b := d.out[0]

	if len(b) > n {
		d.out[0] = b[n:]
		b = b[:n]
	} else {
		d.out = d.out[1:]
	}

	d.delivered.Write(b)

	return b, nil
}

func (d *huntD2Dev) Write(b []byte) error {
	d.mu.Lock()
	defer d.mu.Unlock()

	d.writes = append(d.writes, huntD2Write{b: append([]byte{}, b...), delivered: d.delivered.String()})

	for _, ch := range b {
		if ch != '\n' {
			d.line = append(d.line, ch)
			// echo
			d.out = append(d.out, []byte{ch})

			continue
		}

		line := string(d.line)
		d.line = nil

		resp := "\r\n"
		if a, ok := d.answers[line]; ok {
			resp += a + "\r\n"
		}

		d.out = append(d.out, []byte(resp+huntD2Prompt))
	}

	return nil
}

func huntD2Driver(t *testing.T, dev *huntD2Dev, readSize int) *generic.Driver {
	t.Helper()

	d, err := generic.NewDriver(
		"dummy",
		options.WithCustomTransport(dev),
		options.WithTimeoutOps(3*time.Second),
		options.WithTransportReadSize(readSize),
	)
	if err != nil {
		t.Fatalf("new driver: %v", err)
	}

	err = d.Open()
	if err != nil {
		t.Fatalf("open: %v", err)
	}

	// let the greeting reach the channel's queue (it is sent at connect, long before any command).
	deadline := time.Now().Add(2 * time.Second)

	for {
		dev.mu.Lock()
		got := dev.delivered.Len()
		dev.mu.Unlock()

		if got == len(dev.greeting) {
			break
		}

		if time.Now().After(deadline) {
			t.Fatalf("greeting not read")
		}

		time.Sleep(time.Millisecond)
	}

	time.Sleep(20 * time.Millisecond)

	return d
}

func huntD2Check(t *testing.T, dev *huntD2Dev, d *generic.Driver, exact bool) {
	t.Helper()

	const (
		cmd1 = "show version"
		out1 = "Cisco IOS XE Software, Version 17.03.04a"
		cmd2 = "show clock"
		out2 = "*10:11:12.000 UTC Mon Oct 5 2026"
	)

	var opts []util.Option
	if exact {
		opts = append(opts, opoptions.WithExactMatchInput())
	}

	type res struct {
		s   string
		err error
	}

	done := make(chan []res, 1)

	go func() {
		var rs []res

		for _, c := range []string{cmd1, cmd2} {
			r, err := d.SendCommand(c, opts...)
			if err != nil {
				rs = append(rs, res{err: err})

				continue
			}

			rs = append(rs, res{s: r.Result})
		}

		done <- rs
	}()

	var rs []res

	select {
	case rs = <-done:
	case <-time.After(15 * time.Second):
		t.Fatalf("watchdog: SendCommand did not return")
	}

	dev.mu.Lock()
	defer dev.mu.Unlock()

	// C12: the return that follows a command must not be written before the device echoed it.
	for i, w := range dev.writes {
		if string(w.b) != "\n" || i == 0 {
			continue
		}

		cmd := string(dev.writes[i-1].b)
		after := strings.TrimPrefix(w.delivered, dev.greeting)

		if !strings.Contains(after, cmd) {
			t.Errorf(
				"return for %q was written before the device had echoed it; delivered after the greeting so far: %q",
				cmd, after,
			)
		}
	}

	// C01: each result is exactly that command's output.
	for i, want := range []string{out1, out2} {
		if rs[i].err != nil {
			t.Errorf("command %d: error %v", i+1, rs[i].err)

			continue
		}

		if rs[i].s != want {
			t.Errorf("command %d: result\n%q\nwant\n%q", i+1, rs[i].s, want)
		}
	}
}

func huntD2NewDev() *huntD2Dev {
	return &huntD2Dev{
		greeting: huntD2Banner + "\r\n" + huntD2Prompt,
		answers: map[string]string{
			"show version": "Cisco IOS XE Software, Version 17.03.04a",
			"show clock":   "*10:11:12.000 UTC Mon Oct 5 2026",
		},
	}
}

// sanity: with exact input matching the very same session is handled correctly.
func TestHuntD2GreetingExactMode(t *testing.T) {
	dev := huntD2NewDev()
	huntD2Check(t, dev, huntD2Driver(t, dev, 8192), true)
}

func TestHuntD2GreetingExactModeOneByteReads(t *testing.T) {
	dev := huntD2NewDev()
	huntD2Check(t, dev, huntD2Driver(t, dev, 1), true)
}

func TestHuntD2GreetingFuzzyMode(t *testing.T) {
	dev := huntD2NewDev()
	huntD2Check(t, dev, huntD2Driver(t, dev, 8192), false)
}

// with one byte per read the match completes in the middle of the banner: the rest of the banner
// and the login prompt are then returned as the output of the first command.
func TestHuntD2GreetingFuzzyModeOneByteReads(t *testing.T) {
	dev := huntD2NewDev()
	huntD2Check(t, dev, huntD2Driver(t, dev, 1), false)
}
