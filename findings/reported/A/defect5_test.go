package generic_test

// Defect 5 (C12 "each event's input is transmitted only after the previous event's expected
// response (or, when none is given, the prompt) has been delivered by the device ... and the
// result contains the whole dialogue"): an event without expected response does not consume its
// echo, so nothing discards bytes that were already waiting when the dialogue started. The prompt
// the device showed at login (or the extra prompt a GetPrompt right after login leaves behind) is
// taken for the answer to the first event: the second event's input is typed before the device has
// answered (even echoed) the first, and the result lacks the last exchange.
//
// drop into: driver/generic/    run: go test -vet=off -count=1 -run 'TestHuntD5' ./driver/generic/

import (
	"bytes"
	"strings"
	"sync"
	"testing"
	"time"

	"github.com/scrapli/scrapligo/channel"
	"github.com/scrapli/scrapligo/driver/generic"
	"github.com/scrapli/scrapligo/driver/options"
	"github.com/scrapli/scrapligo/transport"
)

const huntD5Prompt = "sw1#"

type huntD5Write struct {
	b         []byte
	delivered string
}

type huntD5Chunk struct {
	b     []byte
	delay time.Duration
}

type huntD5Dev struct {
	mu sync.Mutex

	out       []huntD5Chunk
	delivered bytes.Buffer
	line      []byte
	writes    []huntD5Write
	greeting  string
	rtt       time.Duration
}

func (d *huntD5Dev) Open(_ *transport.Args) error {
	d.mu.Lock()
	defer d.mu.Unlock()

	if d.greeting != "" {
		d.out = append(d.out, huntD5Chunk{b: []byte(d.greeting)})
	}

	return nil
}

func (d *huntD5Dev) Close() error  { return nil }
func (d *huntD5Dev) IsAlive() bool { return true }

func (d *huntD5Dev) Read(n int) ([]byte, error) {
	d.mu.Lock()

	if len(d.out) == 0 {
		d.mu.Unlock()
		time.Sleep(time.Millisecond)

		return nil, nil
	}

	c := d.out[0]

	if c.delay > 0 {
		d.out[0].delay = 0
		d.mu.Unlock()
		time.Sleep(c.delay)

		return nil, nil
	}

	if len(c.b) > n {
		d.out[0].b = c.b[n:]
		c.b = c.b[:n]
	} else {
		d.out = d.out[1:]
	}

	d.delivered.Write(c.b)
	d.mu.Unlock()

	return c.b, nil
}

func (d *huntD5Dev) Write(b []byte) error {
	d.mu.Lock()
	defer d.mu.Unlock()

	d.writes = append(
		d.writes,
		huntD5Write{b: append([]byte{}, b...), delivered: d.delivered.String()},
	)

	for _, ch := range b {
		if ch != '\n' {
			d.line = append(d.line, ch)
			d.out = append(d.out, huntD5Chunk{b: []byte{ch}})

			continue
		}

		line := string(d.line)
		d.line = nil

		resp := "\r\n"

		switch line {
		case "show clock":
			resp += "*10:11:12.000 UTC Mon Oct 5 2026\r\n"
		case "show users":
			resp += " vty 0  admin\r\n"
		}

		// the device needs a moment to run the command.
		d.out = append(d.out, huntD5Chunk{b: []byte(resp + huntD5Prompt), delay: d.rtt})
	}

	return nil
}

func huntD5Run(t *testing.T, greeting string, getPromptFirst bool) {
	t.Helper()

	dev := &huntD5Dev{greeting: greeting, rtt: 20 * time.Millisecond}

	d, err := generic.NewDriver(
		"dummy",
		options.WithCustomTransport(dev),
		options.WithTimeoutOps(3*time.Second),
	)
	if err != nil {
		t.Fatalf("new driver: %v", err)
	}

	err = d.Open()
	if err != nil {
		t.Fatalf("open: %v", err)
	}

	// the greeting is sent at connect, long before the first operation.
	time.Sleep(50 * time.Millisecond)

	if getPromptFirst {
		p, promptErr := d.GetPrompt()
		if promptErr != nil || p != huntD5Prompt {
			t.Fatalf("GetPrompt: %q, %v", p, promptErr)
		}

		time.Sleep(50 * time.Millisecond)
	}

	dev.mu.Lock()
	base := len(dev.writes)
	before := dev.delivered.String()
	dev.mu.Unlock()

	events := []*channel.SendInteractiveEvent{
		{ChannelInput: "show clock", ChannelResponse: "", HideInput: false},
		{ChannelInput: "show users", ChannelResponse: "", HideInput: false},
	}

	type res struct {
		s   string
		err error
	}

	done := make(chan res, 1)

	go func() {
		r, sendErr := d.SendInteractive(events)
		if sendErr != nil {
			done <- res{err: sendErr}

			return
		}

		done <- res{s: r.Result}
	}()

	var r res

	select {
	case r = <-done:
	case <-time.After(15 * time.Second):
		t.Fatalf("watchdog: SendInteractive did not return")
	}

	if r.err != nil {
		t.Fatalf("SendInteractive: %v", r.err)
	}

	dev.mu.Lock()
	defer dev.mu.Unlock()

	// pacing: when the second event's input is written the device must have delivered its answer
	// to the first one.
	for _, w := range dev.writes[base:] {
		if string(w.b) != "show users" {
			continue
		}

		during := strings.TrimPrefix(w.delivered, before)

		if !strings.Contains(during, "*10:11:12.000 UTC Mon Oct 5 2026\r\n"+huntD5Prompt) {
			t.Errorf(
				"second event typed before the device answered the first; delivered since the dialogue started: %q",
				during,
			)
		}
	}

	// whole dialogue in the result.
	for _, want := range []string{
		"show clock", "*10:11:12.000 UTC Mon Oct 5 2026", "show users", " vty 0  admin",
	} {
		if !strings.Contains(r.s, want) {
			t.Errorf("result lacks %q: %q", want, r.s)
		}
	}
}

// sanity: a session in which nothing is waiting when the dialogue starts is paced correctly.
func TestHuntD5NothingWaiting(t *testing.T) { huntD5Run(t, "", false) }

// the device showed its prompt at login, as every device does.
func TestHuntD5LoginPromptWaiting(t *testing.T) { huntD5Run(t, "\r\n"+huntD5Prompt, false) }

// the login prompt was consumed by a GetPrompt, whose own answer is then the one left waiting.
func TestHuntD5AfterGetPrompt(t *testing.T) { huntD5Run(t, "\r\n"+huntD5Prompt, true) }
