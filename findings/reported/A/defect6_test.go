package generic_test

// Defect 6 (C12 "each event's input is transmitted only after the previous event's expected
// response has been delivered by the device") - LOWER CONFIDENCE, depends on how one reads
// ChannelResponse. The field is documented only as "the response to expect"; every example and
// test of the library passes the literal device text "[confirm]". The channel compiles the string
// as a regular expression, where "[confirm]" is a character class: the wait is over as soon as the
// device has delivered any one of the letters c,o,n,f,i,r,m - here the "r" of "Clear" - and the
// confirming return is typed while the device is still printing its question.
//
// drop into: driver/generic/    run: go test -vet=off -count=1 -run 'TestHuntD6' ./driver/generic/

import (
	"bytes"
	"strings"
	"sync"
	"testing"
	"time"

	"github.com/scrapli/scrapligo/channel"
	"github.com/scrapli/scrapligo/driver/generic"
	"github.com/scrapli/scrapligo/driver/options"
	"github.com/scrapli/scrapligo/transport"
)

const huntD6Prompt = "sw1#"

type huntD6Chunk struct {
	b     []byte
	delay time.Duration
}

type huntD6Write struct {
	b         []byte
	delivered string
}

type huntD6Dev struct {
	mu sync.Mutex

	out       []huntD6Chunk
	delivered bytes.Buffer
	line      []byte
	confirm   bool
	writes    []huntD6Write
}

func (d *huntD6Dev) Open(_ *transport.Args) error { return nil }
func (d *huntD6Dev) Close() error                 { return nil }
func (d *huntD6Dev) IsAlive() bool                { return true }

func (d *huntD6Dev) Read(n int) ([]byte, error) {
	d.mu.Lock()

	if len(d.out) == 0 {
		d.mu.Unlock()
		time.Sleep(time.Millisecond)

		return nil, nil
	}

	c := d.out[0]

	if c.delay > 0 {
		d.out[0].delay = 0
		d.mu.Unlock()
		time.Sleep(c.delay)

		return nil, nil
	}

	if len(c.b) > n {
		d.out[0].b = c.b[n:]
		c.b = c.b[:n]
	} else {
		d.out = d.out[1:]
	}

	d.delivered.Write(c.b)
	d.mu.Unlock()

	return c.b, nil
}

func (d *huntD6Dev) Write(b []byte) error {
	d.mu.Lock()
	defer d.mu.Unlock()

	d.writes = append(
		d.writes,
		huntD6Write{b: append([]byte{}, b...), delivered: d.delivered.String()},
	)

	for _, ch := range b {
		if ch != '\n' {
			d.line = append(d.line, ch)
			d.out = append(d.out, huntD6Chunk{b: []byte{ch}})

			continue
		}

		line := string(d.line)
		d.line = nil

		switch {
		case d.confirm:
			d.confirm = false
			d.out = append(d.out, huntD6Chunk{b: []byte("\r\n" + huntD6Prompt)})
		case line == "clear logging":
			d.confirm = true
			// the question arrives in two segments.
			d.out = append(
				d.out,
				huntD6Chunk{b: []byte("\r\nClear logging buffer ")},
				huntD6Chunk{b: []byte("[confirm]"), delay: 40 * time.Millisecond},
			)
		default:
			d.out = append(d.out, huntD6Chunk{b: []byte("\r\n" + huntD6Prompt)})
		}
	}

	return nil
}

func huntD6Run(t *testing.T, response string) {
	t.Helper()

	dev := &huntD6Dev{}

	d, err := generic.NewDriver(
		"dummy",
		options.WithCustomTransport(dev),
		options.WithTimeoutOps(3*time.Second),
	)
	if err != nil {
		t.Fatalf("new driver: %v", err)
	}

	err = d.Open()
	if err != nil {
		t.Fatalf("open: %v", err)
	}

	// the events of examples/generic_driver/interactive_prompts/main.go
	events := []*channel.SendInteractiveEvent{
		{ChannelInput: "clear logging", ChannelResponse: response, HideInput: false},
		{ChannelInput: "", ChannelResponse: "", HideInput: false},
	}

	done := make(chan error, 1)

	go func() {
		_, sendErr := d.SendInteractive(events)
		done <- sendErr
	}()

	select {
	case err = <-done:
	case <-time.After(15 * time.Second):
		t.Fatalf("watchdog: SendInteractive did not return")
	}

	if err != nil {
		t.Fatalf("SendInteractive: %v", err)
	}

	dev.mu.Lock()
	defer dev.mu.Unlock()

	// writes: "clear logging", return, "" (event 2 input), return (event 2).
	if len(dev.writes) != 4 {
		t.Fatalf("unexpected writes: %q", dev.writes)
	}

	for _, w := range dev.writes[2:] {
		if !strings.Contains(w.delivered, "[confirm]") {
			t.Errorf(
				"second event (%q) typed before the device delivered \"[confirm]\"; delivered so far: %q",
				w.b, w.delivered,
			)
		}
	}
}

// sanity: the same dialogue with the expected response written as an escaped expression.
func TestHuntD6ConfirmEscaped(t *testing.T) { huntD6Run(t, `\[confirm\]`) }

// the expected response exactly as in the library's examples and tests.
func TestHuntD6ConfirmAsInExamples(t *testing.T) { huntD6Run(t, "[confirm]") }
