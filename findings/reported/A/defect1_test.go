package platform_test

// Defect 1 (C12): on the cumulus_linux platform the secondary secret is typed at a shell prompt
// when `sudo su` does not ask for a password (or refuses without asking) but prints a diagnostic
// line that contains ": " before the prompt arrives in a later transport read.
//
// drop into: platform/      run: go test -vet=off -count=1 -run 'TestHuntD1' ./platform/

import (
	"strings"
	"sync"
	"testing"
	"time"

	"github.com/scrapli/scrapligo/driver/options"
	"github.com/scrapli/scrapligo/platform"
	"github.com/scrapli/scrapligo/transport"
)

const huntD1Secret = "S3cr3t-Sudo-Pw"

type huntD1Chunk struct {
	b     []byte
	delay time.Duration
}

// huntD1Dev is a causal model of a Cumulus Linux box: it echoes what is typed while a shell prompt
// is showing, does not echo while a password prompt is showing, and answers each line.
type huntD1Dev struct {
	mu sync.Mutex

	out []huntD1Chunk

	line []byte
	// mode is "shell" (user shell), "root" (root shell) or "password" (sudo is asking).
	mode string

	// sudo behaviour: "grant-noask", "refuse-noask" or "ask".
	sudo string

	// oneByte makes the device deliver its bytes one per read.
	oneByte bool

	// linesAtShell holds every line that arrived while a shell prompt (user or root) was showing.
	linesAtShell []string
	// linesAtPassword holds every line that arrived while the password prompt was showing.
	linesAtPassword []string
}

func (d *huntD1Dev) prompt() string {
	if d.mode == "root" {
		return "root@leaf01:mgmt:/home/cumulus# "
	}

	return "cumulus@leaf01:mgmt:~$ "
}

func (d *huntD1Dev) emit(s string, delay time.Duration) {
	if d.oneByte {
		for i := 0; i < len(s); i++ {
			dl := time.Duration(0)
			if i == 0 {
				dl = delay
			}

			d.out = append(d.out, huntD1Chunk{b: []byte{s[i]}, delay: dl})
		}

		return
	}

	d.out = append(d.out, huntD1Chunk{b: []byte(s), delay: delay})
}

func (d *huntD1Dev) Open(_ *transport.Args) error {
	d.mu.Lock()
	defer d.mu.Unlock()

	d.mode = "shell"
	d.emit("Welcome to Cumulus Linux\r\n"+d.prompt(), 0)

	return nil
}

func (d *huntD1Dev) Close() error  { return nil }
func (d *huntD1Dev) IsAlive() bool { return true }

func (d *huntD1Dev) Read(n int) ([]byte, error) {
	d.mu.Lock()

	if len(d.out) == 0 {
		d.mu.Unlock()
		time.Sleep(time.Millisecond)

		return nil, nil
	}

	c := d.out[0]

	if c.delay > 0 {
		// the bytes are "on the wire" for a while; nothing else can overtake them.
		d.out[0].delay = 0
		d.mu.Unlock()
		time.Sleep(c.delay)

		return nil, nil
	}

	if len(c.b) > n {
		d.out[0].b = c.b[n:]
		c.b = c.b[:n]
	} else {
		d.out = d.out[1:]
	}

	d.mu.Unlock()

	return c.b, nil
}

func (d *huntD1Dev) Write(b []byte) error {
	d.mu.Lock()
	defer d.mu.Unlock()

	for _, ch := range b {
		if ch != '\n' {
			d.line = append(d.line, ch)

			if d.mode != "password" {
				d.emit(string(ch), 0)
			}

			continue
		}

		line := string(d.line)
		d.line = nil

		d.handleLine(line)
	}

	return nil
}

func (d *huntD1Dev) handleLine(line string) {
	if d.mode == "password" {
		d.linesAtPassword = append(d.linesAtPassword, line)

		if line == huntD1Secret {
			d.mode = "root"
			d.emit("\r\n"+d.prompt(), 0)
		} else {
			d.mode = "shell"
			d.emit("\r\nSorry, try again.\r\nsudo: 1 incorrect password attempt\r\n"+d.prompt(), 0)
		}

		return
	}

	d.linesAtShell = append(d.linesAtShell, line)

	switch strings.TrimSpace(line) {
	case "":
		d.emit("\r\n"+d.prompt(), 0)
	case "sudo su":
		switch d.sudo {
		case "ask":
			d.mode = "password"
			d.emit("\r\n[sudo] password for cumulus: ", 0)
		case "grant-noask":
			// NOPASSWD / cached credentials; sudo prints its classic host name warning, the root
			// shell's prompt follows in the next segment.
			d.mode = "root"
			d.emit("\r\nsudo: unable to resolve host leaf01: Name or service not known\r\n", 0)
			d.emit(d.prompt(), 30*time.Millisecond)
		case "refuse-noask":
			d.emit("\r\nsudo: /etc/sudoers is world writable\r\nsudo: no valid sudoers sources found, quitting\r\n", 0)
			d.emit(d.prompt(), 30*time.Millisecond)
		}
	case "exit":
		d.mode = "shell"
		d.emit("\r\nexit\r\n"+d.prompt(), 0)
	default:
		d.emit("\r\nbash: "+line+": command not found\r\n"+d.prompt(), 0)
	}
}

func huntD1Run(t *testing.T, sudo string, oneByte bool) *huntD1Dev {
	t.Helper()

	dev := &huntD1Dev{sudo: sudo, oneByte: oneByte}

	p, err := platform.NewPlatform(
		"cumulus_linux",
		"dummy",
		options.WithCustomTransport(dev),
		options.WithAuthSecondary(huntD1Secret),
		options.WithTimeoutOps(3*time.Second),
	)
	if err != nil {
		t.Fatalf("new platform: %v", err)
	}

	d, err := p.GetNetworkDriver()
	if err != nil {
		t.Fatalf("get driver: %v", err)
	}

	err = d.Open()
	if err != nil {
		t.Fatalf("open: %v", err)
	}

	done := make(chan error, 1)

	go func() { done <- d.AcquirePriv("configuration") }()

	select {
	case err = <-done:
		t.Logf("AcquirePriv(configuration) returned: %v", err)
	case <-time.After(20 * time.Second):
		t.Fatalf("watchdog: AcquirePriv did not return")
	}

	return dev
}

func huntD1Check(t *testing.T, dev *huntD1Dev) {
	t.Helper()

	dev.mu.Lock()
	defer dev.mu.Unlock()

	t.Logf("lines the device received at a shell prompt: %q", dev.linesAtShell)
	t.Logf("lines the device received at the password prompt: %q", dev.linesAtPassword)

	for _, l := range dev.linesAtShell {
		if strings.Contains(l, huntD1Secret) {
			t.Fatalf(
				"the secondary secret was typed (and echoed) at a shell prompt: %q", l,
			)
		}
	}
}

// sanity: when sudo asks, the secret goes to the password prompt and only there.
func TestHuntD1SudoAsks(t *testing.T) {
	dev := huntD1Run(t, "ask", false)
	huntD1Check(t, dev)

	if len(dev.linesAtPassword) != 1 || dev.linesAtPassword[0] != huntD1Secret {
		t.Fatalf("secret did not reach the password prompt: %q", dev.linesAtPassword)
	}
}

func TestHuntD1SudoGrantsWithoutAsking(t *testing.T) {
	huntD1Check(t, huntD1Run(t, "grant-noask", false))
}

func TestHuntD1SudoGrantsWithoutAskingOneByteReads(t *testing.T) {
	huntD1Check(t, huntD1Run(t, "grant-noask", true))
}

func TestHuntD1SudoRefusesWithoutAsking(t *testing.T) {
	huntD1Check(t, huntD1Run(t, "refuse-noask", false))
}
