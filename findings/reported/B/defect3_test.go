package netconf_test

// defect 3 (C02): the NETCONF read loop finds out whose reply it has by running the regex
// `message-id="(\d+)"` over the RAW framed bytes (driver/netconf/read.go:67). Under 1.1 a legal
// chunk boundary may fall inside that attribute; the chunk header then sits in the middle of it,
// the regex finds nothing, the reply is thrown away (read.go:73,89) and the caller's RPC runs into
// its timeout although the server answered correctly. (Same family as the rpc-error marker cut by
// a chunk boundary, but in the reader, and the effect is a lost reply.)
// A second way to the same end, under either framing: the server writes the attribute with single
// quotes, which is the same XML.
//
// drop into driver/netconf, run: go test -vet=off -count=1 -run 'TestHuntB3' ./driver/netconf/

import (
	"bytes"
	"fmt"
	"strings"
	"sync"
	"testing"
	"time"

	"github.com/scrapli/scrapligo/driver/netconf"
	"github.com/scrapli/scrapligo/driver/options"
	"github.com/scrapli/scrapligo/transport"
)

const huntB3Hello = `<?xml version="1.0" encoding="UTF-8"?>
<hello xmlns="urn:ietf:params:xml:ns:netconf:base:1.0">
<capabilities>
<capability>urn:ietf:params:netconf:base:1.0</capability>
<capability>urn:ietf:params:netconf:base:1.1</capability>
</capabilities>
<session-id>25</session-id></hello>]]>]]>`

// huntB3Transport serves the hello and, once the client has written a complete rpc, makes the next
// scripted reply (a list of read segments) readable.
type huntB3Transport struct {
	mu      sync.Mutex
	pending [][]byte
	replies [][][]byte
	wbuf    []byte
	closed  chan struct{}
	once    sync.Once
}

func newHuntB3Transport(replies ...[][]byte) *huntB3Transport {
	return &huntB3Transport{
		pending: [][]byte{[]byte(huntB3Hello)},
		replies: replies,
		closed:  make(chan struct{}),
	}
}

func (t *huntB3Transport) Open(_ *transport.Args) error { return nil }

func (t *huntB3Transport) Close() error {
	t.once.Do(func() { close(t.closed) })

	return nil
}

func (t *huntB3Transport) IsAlive() bool { return true }

func (t *huntB3Transport) Read(_ int) ([]byte, error) {
	for {
		t.mu.Lock()
		if len(t.pending) > 0 {
			b := t.pending[0]
			t.pending = t.pending[1:]
			t.mu.Unlock()

			return b, nil
		}
		t.mu.Unlock()

		select {
		case <-t.closed:
			return nil, fmt.Errorf("closed")
		case <-time.After(200 * time.Microsecond):
		}
	}
}

func (t *huntB3Transport) Write(b []byte) error {
	t.mu.Lock()
	defer t.mu.Unlock()

	t.wbuf = append(t.wbuf, b...)

	if bytes.Contains(t.wbuf, []byte("</rpc>")) {
		t.wbuf = nil

		if len(t.replies) > 0 {
			t.pending = append(t.pending, t.replies[0]...)
			t.replies = t.replies[1:]
		}
	}

	return nil
}

func huntB3Open(t *testing.T, version string, tr *huntB3Transport) *netconf.Driver {
	t.Helper()

	d, err := netconf.NewDriver(
		"dummy",
		options.WithCustomTransport(tr),
		options.WithNetconfPreferredVersion(version),
		options.WithReadDelay(0),
		options.WithTimeoutOps(700*time.Millisecond),
	)
	if err != nil {
		t.Fatalf("new driver: %s", err)
	}

	if err = d.Open(); err != nil {
		t.Fatalf("open: %s", err)
	}

	return d
}

func huntB3Chunked(chunks ...string) []byte {
	var b bytes.Buffer

	for _, c := range chunks {
		fmt.Fprintf(&b, "\n#%d\n%s", len(c), c)
	}

	b.WriteString("\n##\n")

	return b.Bytes()
}

const huntB3Payload = `<rpc-reply xmlns="urn:ietf:params:xml:ns:netconf:base:1.0" message-id="101">` +
	`<data><x>1</x></data></rpc-reply>`

func huntB3Get(t *testing.T, version string, wire []byte, want string) {
	t.Helper()

	tr := newHuntB3Transport([][]byte{wire})
	d := huntB3Open(t, version, tr)

	defer d.Close() //nolint:errcheck

	r, err := d.Get("")
	if err != nil {
		t.Fatalf("the server answered %q, but the rpc returned: %s", wire, err)
	}

	if r.Failed != nil {
		t.Errorf("marked failed: %v", r.Failed)
	}

	if r.Result != want {
		t.Errorf("result\n got: %q\nwant: %q", r.Result, want)
	}
}

// control: the same payload, cut anywhere that is not inside the attribute, is decoded fine.
func TestHuntB3ControlOtherCut(t *testing.T) {
	cut := strings.Index(huntB3Payload, "<data>")
	huntB3Get(t, "1.1", huntB3Chunked(huntB3Payload[:cut], huntB3Payload[cut:]), huntB3Payload)
}

func TestHuntB3MessageIDCutByChunkBoundary(t *testing.T) {
	cut := strings.Index(huntB3Payload, `-id="101"`)
	huntB3Get(t, "1.1", huntB3Chunked(huntB3Payload[:cut], huntB3Payload[cut:]), huntB3Payload)
}

func TestHuntB3MessageIDDigitsCutByChunkBoundary(t *testing.T) {
	// worse: the boundary falls between the digits. `message-id="1` .. `01"`: still no match, but
	// with an id like 1101 cut as `message-id="1` + `101"` nothing would match either; any cut
	// after the opening quote loses the reply.
	cut := strings.Index(huntB3Payload, `01">`)
	huntB3Get(t, "1.1", huntB3Chunked(huntB3Payload[:cut], huntB3Payload[cut:]), huntB3Payload)
}

func TestHuntB3MessageIDSingleQuotes(t *testing.T) {
	payload := strings.Replace(huntB3Payload, `message-id="101"`, `message-id='101'`, 1)

	t.Run("1.0", func(t *testing.T) { huntB3Get(t, "1.0", []byte(payload+"]]>]]>"), payload) })
	t.Run("1.1", func(t *testing.T) { huntB3Get(t, "1.1", huntB3Chunked(payload), payload) })
}

// a third way to lose a reply in the reader, again because raw text is searched instead of the
// message being parsed: any buffer that contains the six bytes "</rpc>" is taken for the echo of
// the client's own request and discarded (read.go:44-61) - also when it is the server's reply
// quoting that text in a CDATA section (schema / documentation text).
func TestHuntB3ReplyQuotingRPCEndTagIsDropped(t *testing.T) {
	payload := `<rpc-reply xmlns="urn:ietf:params:xml:ns:netconf:base:1.0" message-id="101">` +
		`<data><![CDATA[example: <rpc message-id="1"><get/></rpc>]]></data></rpc-reply>`

	huntB3Get(t, "1.1", huntB3Chunked(payload), payload)
}
