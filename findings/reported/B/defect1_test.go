package netconf_test

// defect 1 (C02): carriage returns inside a NETCONF reply are deleted by the channel read loop
// (channel/read.go:102) before the NETCONF layer sees the bytes. Under 1.1 the chunk sizes the
// server announced count those bytes, so a perfectly legal chunked reply no longer agrees with its
// own framing: it is either reported as a parse failure (empty result) or silently decoded to a
// payload the server did not send. Under 1.0 the payload is silently altered.
//
// drop into driver/netconf, run: go test -vet=off -count=1 -run 'TestHuntB1' ./driver/netconf/

import (
	"bytes"
	"fmt"
	"strings"
	"sync"
	"testing"
	"time"

	"github.com/scrapli/scrapligo/driver/netconf"
	"github.com/scrapli/scrapligo/driver/options"
	"github.com/scrapli/scrapligo/transport"
)

const huntB1Hello = `<?xml version="1.0" encoding="UTF-8"?>
<hello xmlns="urn:ietf:params:xml:ns:netconf:base:1.0">
<capabilities>
<capability>urn:ietf:params:netconf:base:1.0</capability>
<capability>urn:ietf:params:netconf:base:1.1</capability>
</capabilities>
<session-id>25</session-id></hello>]]>]]>`

// huntB1Transport is a scripted in-memory server: it serves the hello, and each time the client has
// written a complete rpc it makes the next scripted reply (a list of read segments) readable.
type huntB1Transport struct {
	mu      sync.Mutex
	pending [][]byte
	replies [][][]byte
	wbuf    []byte
	writes  [][]byte
	closed  chan struct{}
	once    sync.Once
}

func newHuntB1Transport(replies ...[][]byte) *huntB1Transport {
	return &huntB1Transport{
		pending: [][]byte{[]byte(huntB1Hello)},
		replies: replies,
		closed:  make(chan struct{}),
	}
}

func (t *huntB1Transport) Open(_ *transport.Args) error { return nil }

func (t *huntB1Transport) Close() error {
	t.once.Do(func() { close(t.closed) })

	return nil
}

func (t *huntB1Transport) IsAlive() bool { return true }

func (t *huntB1Transport) Read(_ int) ([]byte, error) {
	for {
		t.mu.Lock()
		if len(t.pending) > 0 {
			b := t.pending[0]
			t.pending = t.pending[1:]
			t.mu.Unlock()

			return b, nil
		}
		t.mu.Unlock()

		select {
		case <-t.closed:
			return nil, fmt.Errorf("closed")
		case <-time.After(200 * time.Microsecond):
		}
	}
}

func (t *huntB1Transport) Write(b []byte) error {
	t.mu.Lock()
	defer t.mu.Unlock()

	t.writes = append(t.writes, append([]byte(nil), b...))
	t.wbuf = append(t.wbuf, b...)

	if bytes.Contains(t.wbuf, []byte("</rpc>")) {
		t.wbuf = nil

		if len(t.replies) > 0 {
			t.pending = append(t.pending, t.replies[0]...)
			t.replies = t.replies[1:]
		}
	}

	return nil
}

func huntB1Open(t *testing.T, version string, tr *huntB1Transport) *netconf.Driver {
	t.Helper()

	d, err := netconf.NewDriver(
		"dummy",
		options.WithCustomTransport(tr),
		options.WithNetconfPreferredVersion(version),
		options.WithReadDelay(0),
		options.WithTimeoutOps(3*time.Second),
	)
	if err != nil {
		t.Fatalf("new driver: %s", err)
	}

	if err = d.Open(); err != nil {
		t.Fatalf("open: %s", err)
	}

	return d
}

func huntB1Chunked(chunks ...string) []byte {
	var b bytes.Buffer

	for _, c := range chunks {
		fmt.Fprintf(&b, "\n#%d\n%s", len(c), c)
	}

	b.WriteString("\n##\n")

	return b.Bytes()
}

// a banner with CRLF line ends, as plenty of devices store them.
const huntB1Payload = `<rpc-reply xmlns="urn:ietf:params:xml:ns:netconf:base:1.0" message-id="101">` +
	"<data><banner>line one\r\nline two\r\nline three</banner></data></rpc-reply>"

// control: the harness and the decoder agree on a payload without CR.
func TestHuntB1ControlNoCarriageReturn(t *testing.T) {
	payload := strings.ReplaceAll(huntB1Payload, "\r", "")
	tr := newHuntB1Transport([][]byte{huntB1Chunked(payload)})
	d := huntB1Open(t, "1.1", tr)

	defer d.Close() //nolint:errcheck

	r, err := d.Get("")
	if err != nil {
		t.Fatalf("get: %s", err)
	}

	if r.Failed != nil || r.Result != payload {
		t.Errorf("control failed: %v / %q", r.Failed, r.Result)
	}
}

func TestHuntB1CarriageReturnBreaksChunkFraming(t *testing.T) {
	// one legal chunk, exact byte count, delivered in one read.
	tr := newHuntB1Transport([][]byte{huntB1Chunked(huntB1Payload)})
	d := huntB1Open(t, "1.1", tr)

	defer d.Close() //nolint:errcheck

	r, err := d.Get("")
	if err != nil {
		t.Fatalf("get: %s", err)
	}

	if r.Failed != nil {
		t.Errorf("legal chunked reply without rpc-error was marked failed: %v", r.Failed)
	}

	if r.Result != huntB1Payload {
		t.Errorf("result is not the payload the server sent\n got: %q\nwant: %q", r.Result, huntB1Payload)
	}
}

func TestHuntB1CarriageReturnTwoChunks(t *testing.T) {
	// the same payload in two chunks; the first chunk holds both CRs, so the decoder runs two bytes
	// into the next chunk header.
	cut := strings.Index(huntB1Payload, "line three")
	tr := newHuntB1Transport([][]byte{huntB1Chunked(huntB1Payload[:cut], huntB1Payload[cut:])})
	d := huntB1Open(t, "1.1", tr)

	defer d.Close() //nolint:errcheck

	r, err := d.Get("")
	if err != nil {
		t.Fatalf("get: %s", err)
	}

	if r.Failed != nil {
		t.Errorf("legal chunked reply without rpc-error was marked failed: %v", r.Failed)
	}

	if r.Result != huntB1Payload {
		t.Errorf("result is not the payload the server sent\n got: %q\nwant: %q", r.Result, huntB1Payload)
	}
}

func TestHuntB1CarriageReturnSilentlyDropped(t *testing.T) {
	// a single CR: the decoder takes the LF of the end-of-chunks marker as the last payload byte,
	// nothing is flagged and the caller gets a payload the server did not send.
	payload := `<rpc-reply xmlns="urn:ietf:params:xml:ns:netconf:base:1.0" message-id="101">` +
		"<data><banner>a\rb</banner></data></rpc-reply>"

	for _, version := range []string{"1.0", "1.1"} {
		var wire []byte
		if version == "1.1" {
			wire = huntB1Chunked(payload)
		} else {
			wire = []byte(payload + "]]>]]>")
		}

		tr := newHuntB1Transport([][]byte{wire})
		d := huntB1Open(t, version, tr)

		r, err := d.Get("")
		if err != nil {
			t.Fatalf("%s get: %s", version, err)
		}

		if r.Failed != nil {
			t.Errorf("%s: marked failed: %v", version, r.Failed)
		}

		if r.Result != payload {
			t.Errorf("%s: result is not the payload the server sent\n got: %q\nwant: %q",
				version, r.Result, payload)
		}

		_ = d.Close()
	}
}
