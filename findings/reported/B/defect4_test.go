package netconf_test

// defect 4 (C02): the read loop treats "the accumulated buffer contains a delimiter" as "the buffer
// is one message" (driver/netconf/read.go:43-89). When one transport read carries the end of one
// server message and (the beginning of) the next - e.g. a notification immediately followed by the
// rpc-reply, which is ordinary on a session with a subscription and 8 KiB reads - the whole buffer
// is filed under the first message-id found in it. The caller's reply is then
//   1.1: decoded up to the FIRST end-of-chunks marker -> Result is the notification, the reply's
//        payload is lost, nothing is flagged;
//   1.0: Result holds both messages with a "]]>]]>" in the middle.
// With the very same bytes split into two reads at the message boundary everything is fine, so
// this is a violation of "for every way its bytes are split into transport reads".
//
// drop into driver/netconf, run: go test -vet=off -count=1 -run 'TestHuntB4' ./driver/netconf/

import (
	"bytes"
	"fmt"
	"sync"
	"testing"
	"time"

	"github.com/scrapli/scrapligo/driver/netconf"
	"github.com/scrapli/scrapligo/driver/options"
	"github.com/scrapli/scrapligo/transport"
)

const huntB4Hello = `<?xml version="1.0" encoding="UTF-8"?>
<hello xmlns="urn:ietf:params:xml:ns:netconf:base:1.0">
<capabilities>
<capability>urn:ietf:params:netconf:base:1.0</capability>
<capability>urn:ietf:params:netconf:base:1.1</capability>
</capabilities>
<session-id>25</session-id></hello>]]>]]>`

type huntB4Transport struct {
	mu      sync.Mutex
	pending [][]byte
	replies [][][]byte
	wbuf    []byte
	closed  chan struct{}
	once    sync.Once
}

func newHuntB4Transport(replies ...[][]byte) *huntB4Transport {
	return &huntB4Transport{
		pending: [][]byte{[]byte(huntB4Hello)},
		replies: replies,
		closed:  make(chan struct{}),
	}
}

func (t *huntB4Transport) Open(_ *transport.Args) error { return nil }

func (t *huntB4Transport) Close() error {
	t.once.Do(func() { close(t.closed) })

	return nil
}

func (t *huntB4Transport) IsAlive() bool { return true }

func (t *huntB4Transport) Read(_ int) ([]byte, error) {
	for {
		t.mu.Lock()
		if len(t.pending) > 0 {
			b := t.pending[0]
			t.pending = t.pending[1:]
			t.mu.Unlock()

			return b, nil
		}
		t.mu.Unlock()

		select {
		case <-t.closed:
			return nil, fmt.Errorf("closed")
		case <-time.After(200 * time.Microsecond):
		}
	}
}

func (t *huntB4Transport) Write(b []byte) error {
	t.mu.Lock()
	defer t.mu.Unlock()

	t.wbuf = append(t.wbuf, b...)

	if bytes.Contains(t.wbuf, []byte("</rpc>")) {
		t.wbuf = nil

		if len(t.replies) > 0 {
			t.pending = append(t.pending, t.replies[0]...)
			t.replies = t.replies[1:]
		}
	}

	return nil
}

const (
	huntB4Notification = `<notification xmlns="urn:ietf:params:xml:ns:netconf:notification:1.0">` +
		`<eventTime>2026-01-01T00:00:00Z</eventTime><event xmlns="urn:example"><n>7</n></event>` +
		`</notification>`
	huntB4Reply = `<rpc-reply xmlns="urn:ietf:params:xml:ns:netconf:base:1.0" message-id="101">` +
		`<data><x>1</x></data></rpc-reply>`
)

func huntB4Frame(version, payload string) []byte {
	if version == "1.0" {
		return []byte(payload + "]]>]]>\n")
	}

	return []byte(fmt.Sprintf("\n#%d\n%s\n##\n", len(payload), payload))
}

func huntB4Run(t *testing.T, version string, reads [][]byte) {
	t.Helper()

	tr := newHuntB4Transport(reads)

	d, err := netconf.NewDriver(
		"dummy",
		options.WithCustomTransport(tr),
		options.WithNetconfPreferredVersion(version),
		options.WithReadDelay(0),
		options.WithTimeoutOps(2*time.Second),
	)
	if err != nil {
		t.Fatalf("new driver: %s", err)
	}

	if err = d.Open(); err != nil {
		t.Fatalf("open: %s", err)
	}

	defer d.Close() //nolint:errcheck

	r, err := d.Get("")
	if err != nil {
		t.Fatalf("get: %s", err)
	}

	if r.Failed != nil {
		t.Errorf("marked failed: %v", r.Failed)
	}

	if r.Result != huntB4Reply {
		t.Errorf("result is not the reply's payload\n got: %q\nwant: %q", r.Result, huntB4Reply)
	}
}

// control: notification and reply arrive in two reads, cut at the message boundary.
func TestHuntB4ControlSeparateReads(t *testing.T) {
	for _, v := range []string{"1.0", "1.1"} {
		huntB4Run(t, v, [][]byte{huntB4Frame(v, huntB4Notification), huntB4Frame(v, huntB4Reply)})
	}
}

// the same bytes in one read.
func TestHuntB4NotificationAndReplyInOneRead(t *testing.T) {
	for _, v := range []string{"1.0", "1.1"} {
		t.Run(v, func(t *testing.T) {
			one := append(huntB4Frame(v, huntB4Notification), huntB4Frame(v, huntB4Reply)...)
			huntB4Run(t, v, [][]byte{one})
		})
	}
}

// the same bytes in two reads, cut a little after the message boundary (the reply's start tag
// travels with the notification's tail).
func TestHuntB4ReadBoundaryInsideReply(t *testing.T) {
	for _, v := range []string{"1.0", "1.1"} {
		t.Run(v, func(t *testing.T) {
			n, r := huntB4Frame(v, huntB4Notification), huntB4Frame(v, huntB4Reply)
			cut := bytes.Index(r, []byte("<data>"))
			huntB4Run(t, v, [][]byte{append(append([]byte{}, n...), r[:cut]...), r[cut:]})
		})
	}
}
