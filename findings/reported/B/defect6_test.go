package response_test

// defect 6 (C02): "marked failed exactly when the payload carries an rpc-error". The classification
// is a search for six literal byte strings (response/netconf.go:72-80): the unprefixed tags and the
// prefix "nc:". An rpc-error element written with any other namespace prefix - the same XML, and
// what a server that serialises with generated prefixes emits - is not seen: Failed stays nil and
// ErrorMessages is empty, the caller takes the failed edit for a success.
//
// The converse also holds (second test): the strings are searched in the raw text, not in the XML
// structure, so a reply that merely QUOTES the tag in a CDATA section or a comment (get-schema
// answers that wrap YANG text in CDATA, for instance) is marked failed although it carries no
// rpc-error element.
//
// drop into response, run: go test -vet=off -count=1 -run 'TestHuntB6' ./response/

import (
	"fmt"
	"testing"

	"github.com/scrapli/scrapligo/response"
)

func huntB6Payload(prefix string) string {
	p, x := "", "xmlns"
	if prefix != "" {
		p, x = prefix+":", "xmlns:"+prefix
	}

	return fmt.Sprintf(`<%[1]srpc-reply %[2]s="urn:ietf:params:xml:ns:netconf:base:1.0" message-id="101">`+
		`<%[1]srpc-error><%[1]serror-type>application</%[1]serror-type>`+
		`<%[1]serror-tag>invalid-value</%[1]serror-tag>`+
		`<%[1]serror-severity>error</%[1]serror-severity></%[1]srpc-error></%[1]srpc-reply>`, p, x)
}

func TestHuntB6PrefixedRPCError(t *testing.T) {
	// "" and "nc" are the controls.
	for _, prefix := range []string{"", "nc", "ns0", "netconf", "a"} {
		payload := huntB6Payload(prefix)

		for _, v := range []string{"1.0", "1.1"} {
			var raw string
			if v == "1.0" {
				raw = payload + "]]>]]>"
			} else {
				raw = fmt.Sprintf("\n#%d\n%s\n##\n", len(payload), payload)
			}

			r := response.NewNetconfResponse(nil, nil, "h", 830, v)
			r.Record([]byte(raw))

			if r.Result != payload {
				t.Errorf("%s prefix %q: result %q", v, prefix, r.Result)
			}

			if r.Failed == nil {
				t.Errorf("%s: reply carrying <%s:rpc-error> is not marked failed", v, prefix)
			}
		}
	}
}

func TestHuntB6QuotedMarkerIsNotAnRPCError(t *testing.T) {
	for _, payload := range []string{
		`<rpc-reply xmlns="urn:ietf:params:xml:ns:netconf:base:1.0" message-id="101">` +
			`<data xmlns="urn:ietf:params:xml:ns:yang:ietf-netconf-monitoring">` +
			`<![CDATA[description "sent in an <rpc-error> element";]]></data></rpc-reply>`,
		`<rpc-reply xmlns="urn:ietf:params:xml:ns:netconf:base:1.0" message-id="101">` +
			`<!-- no <rpc-error> here --><ok/></rpc-reply>`,
	} {
		for _, v := range []string{"1.0", "1.1"} {
			var raw string
			if v == "1.0" {
				raw = payload + "]]>]]>"
			} else {
				raw = fmt.Sprintf("\n#%d\n%s\n##\n", len(payload), payload)
			}

			r := response.NewNetconfResponse(nil, nil, "h", 830, v)
			r.Record([]byte(raw))

			if r.Failed != nil {
				t.Errorf("%s: reply without an rpc-error element marked failed: %q", v, payload)
			}
		}
	}
}
