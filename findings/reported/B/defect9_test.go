package netconf_test

// defect 9 (C03) - BORDERLINE, judge it: "Every request the client transmits is one complete
// message in the negotiated framing (1.0: payload then ']]>]]>') which a strict independent decoder
// turns back into exactly the XML the response reports as its input. That XML is well-formed ...".
// Under 1.0 framing every message is followed by the channel's return character
// (driver/netconf/rpc.go:53, capabilities.go:183). RFC 6242 4.3 knows no separator other than
// ']]>]]>', so for a decoder that cuts the stream at the delimiters that LF is the first byte of
// the NEXT message: every request of a 1.0 session reaches the server as "\n<?xml version=...".
// That is (a) not the bytes the response reports as Input and (b) with the declaration switched on
// (the default) not well-formed XML: an XML declaration may only stand at the very start of the
// document (XML 1.0 2.8, libxml2: "XML declaration allowed only at the start of the document").
// Under 1.1 the same two LFs are exactly the ones the chunk grammar needs (control test).
//
// drop into driver/netconf, run: go test -vet=off -count=1 -run 'TestHuntB9' ./driver/netconf/

import (
	"bytes"
	"fmt"
	"strconv"
	"sync"
	"testing"
	"time"

	"github.com/scrapli/scrapligo/driver/netconf"
	"github.com/scrapli/scrapligo/driver/options"
	"github.com/scrapli/scrapligo/response"
	"github.com/scrapli/scrapligo/transport"
)

const huntB9Hello = `<?xml version="1.0" encoding="UTF-8"?>
<hello xmlns="urn:ietf:params:xml:ns:netconf:base:1.0">
<capabilities>
<capability>urn:ietf:params:netconf:base:1.0</capability>
<capability>urn:ietf:params:netconf:base:1.1</capability>
</capabilities>
<session-id>25</session-id></hello>]]>]]>`

// huntB9Transport records the byte stream the client produces and answers every rpc with <ok/>.
type huntB9Transport struct {
	mu      sync.Mutex
	version string
	pending [][]byte
	wbuf    []byte
	stream  []byte
	nextID  int
	closed  chan struct{}
	once    sync.Once
}

func (t *huntB9Transport) Open(_ *transport.Args) error { return nil }

func (t *huntB9Transport) Close() error {
	t.once.Do(func() { close(t.closed) })

	return nil
}

func (t *huntB9Transport) IsAlive() bool { return true }

func (t *huntB9Transport) Read(_ int) ([]byte, error) {
	for {
		t.mu.Lock()
		if len(t.pending) > 0 {
			b := t.pending[0]
			t.pending = t.pending[1:]
			t.mu.Unlock()

			return b, nil
		}
		t.mu.Unlock()

		select {
		case <-t.closed:
			return nil, fmt.Errorf("closed")
		case <-time.After(200 * time.Microsecond):
		}
	}
}

func (t *huntB9Transport) Write(b []byte) error {
	t.mu.Lock()
	defer t.mu.Unlock()

	t.stream = append(t.stream, b...)
	t.wbuf = append(t.wbuf, b...)

	if bytes.Contains(t.wbuf, []byte("</rpc>")) {
		t.wbuf = nil

		reply := `<rpc-reply xmlns="urn:ietf:params:xml:ns:netconf:base:1.0" message-id="` +
			strconv.Itoa(t.nextID) + `"><ok/></rpc-reply>`
		t.nextID++

		if t.version == "1.0" {
			t.pending = append(t.pending, []byte(reply+"]]>]]>"))
		} else {
			t.pending = append(t.pending, []byte(fmt.Sprintf("\n#%d\n%s\n##\n", len(reply), reply)))
		}
	}

	return nil
}

func huntB9Session(t *testing.T, version string) ([]byte, []*response.NetconfResponse) {
	t.Helper()

	tr := &huntB9Transport{
		version: version,
		pending: [][]byte{[]byte(huntB9Hello)},
		nextID:  101,
		closed:  make(chan struct{}),
	}

	d, err := netconf.NewDriver(
		"dummy",
		options.WithCustomTransport(tr),
		options.WithNetconfPreferredVersion(version),
		options.WithReadDelay(0),
		options.WithTimeoutOps(2*time.Second),
	)
	if err != nil {
		t.Fatalf("new driver: %s", err)
	}

	if err = d.Open(); err != nil {
		t.Fatalf("open: %s", err)
	}

	defer d.Close() //nolint:errcheck

	var rs []*response.NetconfResponse

	for _, f := range []func() (*response.NetconfResponse, error){
		func() (*response.NetconfResponse, error) { return d.Lock("candidate") },
		func() (*response.NetconfResponse, error) {
			return d.EditConfig("candidate", "<config><a xmlns=\"urn:x\">ü</a></config>")
		},
		func() (*response.NetconfResponse, error) { return d.Unlock("candidate") },
	} {
		r, rerr := f()
		if rerr != nil {
			t.Fatalf("rpc: %s", rerr)
		}

		rs = append(rs, r)
	}

	tr.mu.Lock()
	defer tr.mu.Unlock()

	return append([]byte(nil), tr.stream...), rs
}

// strict 1.1: after the hello (1.0 framed) the stream is (LF '#' size LF data)+ LF '#' '#' LF ...
func TestHuntB9ControlStrictDecoder11(t *testing.T) {
	stream, rs := huntB9Session(t, "1.1")

	i := bytes.Index(stream, []byte("]]>]]>"))
	rest := stream[i+len("]]>]]>"):]

	for k, r := range rs {
		var msg []byte

		for {
			if len(rest) < 3 || rest[0] != '\n' || rest[1] != '#' {
				t.Fatalf("message %d: chunk header expected at %q", k, rest)
			}

			if rest[2] == '#' {
				if len(rest) < 4 || rest[3] != '\n' {
					t.Fatalf("message %d: end-of-chunks not terminated: %q", k, rest)
				}

				rest = rest[4:]

				break
			}

			nl := bytes.IndexByte(rest[2:], '\n')
			if nl < 1 || rest[2] < '1' || rest[2] > '9' {
				t.Fatalf("message %d: bad chunk size at %q", k, rest)
			}

			n, err := strconv.Atoi(string(rest[2 : 2+nl]))
			if err != nil || len(rest) < 2+nl+1+n {
				t.Fatalf("message %d: bad chunk size at %q", k, rest)
			}

			msg = append(msg, rest[2+nl+1:2+nl+1+n]...)
			rest = rest[2+nl+1+n:]
		}

		if !bytes.Equal(msg, r.Input) {
			t.Errorf("message %d: decoded %q, response input %q", k, msg, r.Input)
		}
	}
}

func TestHuntB9Strict10DecoderSeesLeadingLF(t *testing.T) {
	stream, rs := huntB9Session(t, "1.0")

	msgs := bytes.Split(stream, []byte("]]>]]>"))
	// msgs[0] is the client hello, msgs[1..] the requests, the last piece is what follows the last
	// delimiter.
	if len(msgs) != len(rs)+2 {
		t.Fatalf("expected %d delimiters, stream %q", len(rs)+1, stream)
	}

	for k, r := range rs {
		msg := msgs[k+1]

		if !bytes.Equal(msg, r.Input) {
			t.Errorf("request %d as framed on the wire is %q, the response reports %q", k, msg, r.Input)
		}

		if bytes.Contains(msg, []byte("<?xml")) && !bytes.HasPrefix(msg, []byte("<?xml")) {
			t.Errorf("request %d: XML declaration is not at the start of the message: %q", k, msg[:12])
		}
	}
}
