package response_test

// defect 7 (C02): "When the framing is malformed ... the response is marked failed with a parse
// error". RFC 6242 4.2: chunk-size = [1-9][0-9]*, every chunk header is LF '#' size LF. The size
// is handed to strconv.Atoi (response/netconf.go:237), which also takes a sign and leading zeros,
// zero is accepted, and the LF in front of a chunk header is optional (netconf.go:192-200), so the
// following malformed frames are decoded as if they were fine.
//
// Under 1.0 framing there is no check at all (second test): a frame without its ']]>]]>' (truncated)
// or with bytes behind / a second delimiter inside is recorded as a good reply.
//
// drop into response, run: go test -vet=off -count=1 -run 'TestHuntB7' ./response/

import (
	"testing"

	"github.com/scrapli/scrapligo/response"
)

func TestHuntB7MalformedChunkHeadersAccepted(t *testing.T) {
	for _, raw := range []string{
		"\n#+5\nhello\n##\n",         // signed size
		"\n#05\nhello\n##\n",         // leading zero
		"\n#0\n\n#5\nhello\n##\n",    // zero-size chunk
		"\n#-0\n\n#5\nhello\n##\n",   // "negative" zero
		"\n#5\nhello#5\nworld\n##\n", // no LF in front of the second chunk header
		"\n#5\nhello##\n",            // no LF in front of the end-of-chunks marker
		"\n#5\nhello\n\n\n\n##\n",    // stray bytes between chunk and marker
		"\n#5\nhello\n##junk",        // end-of-chunks marker not terminated by LF, bytes behind it
	} {
		r := response.NewNetconfResponse(nil, nil, "h", 830, "1.1")
		r.Record([]byte(raw))

		if r.Failed == nil {
			t.Errorf("malformed frame %q accepted, result %q", raw, r.Result)
		}
	}
}

func TestHuntB7Malformed10FramesAccepted(t *testing.T) {
	for _, raw := range []string{
		`<rpc-reply message-id="101"><data><x>1</x></da`,                     // truncated, no delimiter
		`<rpc-reply message-id="101"><ok/></rpc-reply>]]>]]><rpc-reply mess`, // bytes behind the delimiter
	} {
		r := response.NewNetconfResponse(nil, nil, "h", 830, "1.0")
		r.Record([]byte(raw))

		if r.Failed == nil {
			t.Errorf("malformed 1.0 frame %q accepted, result %q", raw, r.Result)
		}
	}
}
