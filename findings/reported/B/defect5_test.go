package response_test

// defect 5 (C02): "the response's result is exactly the reply payload (XML declaration and
// surrounding whitespace trimmed)". Only the one spelling
//     <?xml version="1.0" encoding="UTF-8"?>
// is recognised as an XML declaration (response/netconf.go:20,153,274). The other spellings of the
// same declaration that servers really send - no encoding (Cisco IOS-XR), lower-case "utf-8" (the
// library's own hello uses it), single quotes, standalone - stay in Result, under both framings.
// (The library's golden files for IOS-XR do contain the kept declaration, so upstream tolerates
// this; it is nevertheless not what the statement says.)
//
// drop into response, run: go test -vet=off -count=1 -run 'TestHuntB5' ./response/

import (
	"fmt"
	"testing"

	"github.com/scrapli/scrapligo/response"
)

func TestHuntB5XMLDeclarationSpellings(t *testing.T) {
	const body = `<rpc-reply message-id="101" xmlns="urn:ietf:params:xml:ns:netconf:base:1.0"><ok/></rpc-reply>`

	decls := []string{
		`<?xml version="1.0" encoding="UTF-8"?>`, // control: this one is trimmed
		`<?xml version="1.0"?>`,
		`<?xml version="1.0" encoding="utf-8"?>`,
		`<?xml version='1.0' encoding='UTF-8'?>`,
		`<?xml version="1.0" encoding="UTF-8" standalone="yes"?>`,
		`<?xml version="1.0"  encoding="UTF-8" ?>`,
	}

	for _, decl := range decls {
		payload := decl + "\n" + body

		for _, v := range []string{"1.0", "1.1"} {
			var raw string
			if v == "1.0" {
				raw = payload + "\n]]>]]>"
			} else {
				raw = fmt.Sprintf("\n#%d\n%s\n##\n", len(payload), payload)
			}

			r := response.NewNetconfResponse(nil, nil, "h", 830, v)
			r.Record([]byte(raw))

			if r.Failed != nil {
				t.Errorf("%s %s: failed: %v", v, decl, r.Failed)
			}

			if r.Result != body {
				t.Errorf("%s: declaration %s not trimmed, result %q", v, decl, r.Result)
			}
		}
	}
}
