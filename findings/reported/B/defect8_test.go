package netconf_test

// defect 8 (C02, "decoding never panics"; the code is in driver/netconf/subscription.go, next to
// the anchored files): EstablishPeriodicSubscription indexes the regex submatch of the reply
// without looking whether there was a match (subscription.go:57 and :66). A positive reply that
// does not carry a <subscription-result>notif-bis:...</subscription-result> element - a plain
// <ok/>, or the RFC 8639 form <id>7</id> - or one that carries the result but no
// <subscription-id>, panics the caller's goroutine with an index out of range.
//
// drop into driver/netconf, run: go test -vet=off -count=1 -run 'TestHuntB8' ./driver/netconf/

import (
	"bytes"
	"fmt"
	"sync"
	"testing"
	"time"

	"github.com/scrapli/scrapligo/driver/netconf"
	"github.com/scrapli/scrapligo/driver/options"
	"github.com/scrapli/scrapligo/transport"
)

const huntB8Hello = `<?xml version="1.0" encoding="UTF-8"?>
<hello xmlns="urn:ietf:params:xml:ns:netconf:base:1.0">
<capabilities>
<capability>urn:ietf:params:netconf:base:1.0</capability>
<capability>urn:ietf:params:netconf:base:1.1</capability>
</capabilities>
<session-id>25</session-id></hello>]]>]]>`

type huntB8Transport struct {
	mu      sync.Mutex
	pending [][]byte
	replies [][][]byte
	wbuf    []byte
	closed  chan struct{}
	once    sync.Once
}

func (t *huntB8Transport) Open(_ *transport.Args) error { return nil }

func (t *huntB8Transport) Close() error {
	t.once.Do(func() { close(t.closed) })

	return nil
}

func (t *huntB8Transport) IsAlive() bool { return true }

func (t *huntB8Transport) Read(_ int) ([]byte, error) {
	for {
		t.mu.Lock()
		if len(t.pending) > 0 {
			b := t.pending[0]
			t.pending = t.pending[1:]
			t.mu.Unlock()

			return b, nil
		}
		t.mu.Unlock()

		select {
		case <-t.closed:
			return nil, fmt.Errorf("closed")
		case <-time.After(200 * time.Microsecond):
		}
	}
}

func (t *huntB8Transport) Write(b []byte) error {
	t.mu.Lock()
	defer t.mu.Unlock()

	t.wbuf = append(t.wbuf, b...)

	if bytes.Contains(t.wbuf, []byte("</rpc>")) {
		t.wbuf = nil

		if len(t.replies) > 0 {
			t.pending = append(t.pending, t.replies[0]...)
			t.replies = t.replies[1:]
		}
	}

	return nil
}

func huntB8Run(t *testing.T, payload string) {
	t.Helper()

	tr := &huntB8Transport{
		pending: [][]byte{[]byte(huntB8Hello)},
		replies: [][][]byte{{[]byte(fmt.Sprintf("\n#%d\n%s\n##\n", len(payload), payload))}},
		closed:  make(chan struct{}),
	}

	d, err := netconf.NewDriver(
		"dummy",
		options.WithCustomTransport(tr),
		options.WithNetconfPreferredVersion("1.1"),
		options.WithReadDelay(0),
		options.WithTimeoutOps(2*time.Second),
	)
	if err != nil {
		t.Fatalf("new driver: %s", err)
	}

	if err = d.Open(); err != nil {
		t.Fatalf("open: %s", err)
	}

	defer d.Close() //nolint:errcheck

	defer func() {
		if p := recover(); p != nil {
			t.Errorf("reply %q: EstablishPeriodicSubscription panicked: %v", payload, p)
		}
	}()

	r, err := d.EstablishPeriodicSubscription("/interfaces", 1000)
	t.Logf("no panic: response %v, error %v", r != nil, err)
}

func TestHuntB8SubscriptionReplyWithoutResultPanics(t *testing.T) {
	huntB8Run(t, `<rpc-reply xmlns="urn:ietf:params:xml:ns:netconf:base:1.0" message-id="101"><ok/></rpc-reply>`)
}

func TestHuntB8SubscriptionReplyRFC8639Panics(t *testing.T) {
	huntB8Run(t, `<rpc-reply xmlns="urn:ietf:params:xml:ns:netconf:base:1.0" message-id="101">`+
		`<id xmlns="urn:ietf:params:xml:ns:yang:ietf-subscribed-notifications">7</id></rpc-reply>`)
}

func TestHuntB8SubscriptionReplyWithoutIDPanics(t *testing.T) {
	huntB8Run(t, `<rpc-reply xmlns="urn:ietf:params:xml:ns:netconf:base:1.0" message-id="101">`+
		`<subscription-result xmlns="urn:ietf:params:xml:ns:yang:ietf-event-notifications" `+
		`xmlns:notif-bis="urn:ietf:params:xml:ns:yang:ietf-event-notifications">notif-bis:ok</subscription-result>`+
		`</rpc-reply>`)
}
