package netconf_test

// Defect 3 (C05, recovery clause, NETCONF): an rpc times out because the server stalled after the
// request was sent. The caller issues the next rpc; the server catches up and sends the late
// reply and the reply to the new rpc back to back, so that both arrive in a single transport read
// (forall segmentations). The library files the two messages together under the id of the timed
// out rpc, and the next rpc -- fully answered by the device -- times out as well.
//
// drop into driver/netconf ; go test -vet=off -count=1 -run TestHuntD3 ./driver/netconf/

import (
	"bytes"
	"errors"
	"fmt"
	"io"
	"regexp"
	"strings"
	"sync"
	"testing"
	"time"

	"github.com/scrapli/scrapligo/driver/netconf"
	"github.com/scrapli/scrapligo/driver/opoptions"
	"github.com/scrapli/scrapligo/driver/options"
	"github.com/scrapli/scrapligo/transport"
	"github.com/scrapli/scrapligo/util"
)

const huntD3Hello = `<?xml version="1.0" encoding="UTF-8"?>
<hello xmlns="urn:ietf:params:xml:ns:netconf:base:1.0">
<capabilities>
<capability>urn:ietf:params:netconf:base:1.0</capability>
</capabilities>
<session-id>7</session-id>
</hello>]]>]]>`

var huntD3MessageID = regexp.MustCompile(`<rpc[^>]*message-id="(\d+)"`)

// huntD3Server is a NETCONF 1.0 server (no echo, as over an ssh subsystem): every complete
// request is answered with one rpc-reply carrying the request's message id. While stalled it
// keeps reading requests but holds its replies back; resume(oneRead) releases them, either all in
// one transport read or one read per reply.
type huntD3Server struct {
	mu      sync.Mutex
	inbuf   []byte
	stalled bool
	held    [][]byte

	in       chan []byte
	closed   chan struct{}
	closeOne sync.Once
}

func newHuntD3Server() *huntD3Server {
	s := &huntD3Server{
		in:     make(chan []byte, 64),
		closed: make(chan struct{}),
	}

	s.in <- []byte(huntD3Hello)

	return s
}

func (s *huntD3Server) Open(_ *transport.Args) error { return nil }

func (s *huntD3Server) Close() error {
	s.closeOne.Do(func() { close(s.closed) })

	return nil
}

func (s *huntD3Server) IsAlive() bool { return true }

func (s *huntD3Server) Read(_ int) ([]byte, error) {
	select {
	case b := <-s.in:
		return b, nil
	case <-s.closed:
		return nil, io.EOF
	}
}

func (s *huntD3Server) Write(b []byte) error {
	s.mu.Lock()
	defer s.mu.Unlock()

	s.inbuf = append(s.inbuf, b...)

	for {
		idx := bytes.Index(s.inbuf, []byte("]]>]]>"))
		if idx < 0 {
			return nil
		}

		req := s.inbuf[:idx]
		s.inbuf = s.inbuf[idx+len("]]>]]>"):]

		m := huntD3MessageID.FindSubmatch(req)
		if m == nil {
			// the client hello
			continue
		}

		reply := []byte(fmt.Sprintf(
			"<rpc-reply xmlns=\"urn:ietf:params:xml:ns:netconf:base:1.0\" message-id=\"%s\">"+
				"<data><answer-to>%s</answer-to></data></rpc-reply>]]>]]>\n",
			m[1], m[1],
		))

		if s.stalled {
			s.held = append(s.held, reply)
		} else {
			s.in <- reply
		}
	}
}

func (s *huntD3Server) stall() {
	s.mu.Lock()
	s.stalled = true
	s.mu.Unlock()
}

func (s *huntD3Server) heldReplies() int {
	s.mu.Lock()
	defer s.mu.Unlock()

	return len(s.held)
}

func (s *huntD3Server) resume(oneRead bool) {
	s.mu.Lock()
	defer s.mu.Unlock()

	s.stalled = false

	if oneRead {
		s.in <- bytes.Join(s.held, nil)
	} else {
		for _, r := range s.held {
			s.in <- r
		}
	}

	s.held = nil
}

func huntD3Run(t *testing.T, oneRead bool) {
	srv := newHuntD3Server()

	d, err := netconf.NewDriver(
		"dummy",
		options.WithCustomTransport(srv),
		options.WithTimeoutOps(5*time.Second),
	)
	if err != nil {
		t.Fatalf("new driver: %s", err)
	}

	err = d.Open()
	if err != nil {
		t.Fatalf("open: %s", err)
	}

	defer func() {
		go d.Close() //nolint:errcheck
	}()

	// a first rpc works.
	r, err := d.GetConfig("running")
	if err != nil || !strings.Contains(r.Result, "<answer-to>101</answer-to>") {
		t.Fatalf("first rpc: %v %v", r, err)
	}

	// the server goes silent; the request is sent in full, the rpc times out on its
	// per-operation timeout -- as it should.
	srv.stall()

	_, err = d.GetConfig("running", opoptions.WithTimeoutOps(300*time.Millisecond))
	if !errors.Is(err, util.ErrTimeoutError) {
		t.Fatalf("expected a timeout error from the stalled rpc, got %v", err)
	}

	// the next rpc is issued; once the server has read it, it catches up and answers both.
	type res struct {
		result string
		err    error
	}

	rc := make(chan res, 1)

	go func() {
		nr, nerr := d.GetConfig("running", opoptions.WithTimeoutOps(2*time.Second))
		if nerr != nil {
			rc <- res{err: nerr}

			return
		}

		rc <- res{result: nr.Result}
	}()

	deadline := time.Now().Add(time.Second)
	for srv.heldReplies() < 2 && time.Now().Before(deadline) {
		time.Sleep(5 * time.Millisecond)
	}

	if srv.heldReplies() != 2 {
		t.Fatalf("server did not receive both requests")
	}

	srv.resume(oneRead)

	select {
	case got := <-rc:
		if got.err != nil {
			t.Fatalf(
				"the rpc after the timed out one failed although the device answered it: %v",
				got.err,
			)
		}

		if !strings.Contains(got.result, "<answer-to>103</answer-to>") ||
			strings.Contains(got.result, "<answer-to>102</answer-to>") {
			t.Fatalf("the rpc after the timed out one returned %q", got.result)
		}
	case <-time.After(4 * time.Second):
		t.Fatalf("the rpc after the timed out one hangs")
	}
}

// control: the late reply and the new reply arrive in two transport reads -- works.
func TestHuntD3ControlTwoReads(t *testing.T) {
	huntD3Run(t, false)
}

func TestHuntD3LateReplyAndNextReplyInOneRead(t *testing.T) {
	huntD3Run(t, true)
}
