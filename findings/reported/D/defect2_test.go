package generic_test

// Defect 2 (C05, recovery clause): after a send has timed out (stall after the return was sent)
// and the device has caught up, the next exchange returns the *previous* command's output when
// that next exchange is one that does not read its own echo first (SendInteractive with an event
// that has no ChannelResponse / a hidden input, SendWithCallbacks).
//
// drop into driver/generic ; go test -vet=off -count=1 -run TestHuntD2 ./driver/generic/

import (
	"errors"
	"io"
	"strings"
	"sync"
	"testing"
	"time"

	"github.com/scrapli/scrapligo/channel"
	"github.com/scrapli/scrapligo/driver/generic"
	"github.com/scrapli/scrapligo/driver/opoptions"
	"github.com/scrapli/scrapligo/driver/options"
	"github.com/scrapli/scrapligo/transport"
	"github.com/scrapli/scrapligo/util"
)

// huntD2Device is a line oriented cli: it echoes what it is sent, and on a return prints the
// output of the command and its prompt. While stalled it keeps reading its input but holds all
// of its own output back; resume() sends what was held back.
type huntD2Device struct {
	mu      sync.Mutex
	line    []byte
	stalled bool
	held    []byte
	// stallOn: once a command containing this string is executed (its return arrived) the device
	// goes silent.
	stallOn string

	in       chan []byte
	closed   chan struct{}
	closeOne sync.Once
}

const huntD2Prompt = "router#"

func newHuntD2Device(stallOn string) *huntD2Device {
	return &huntD2Device{
		stallOn: stallOn,
		in:      make(chan []byte, 1024),
		closed:  make(chan struct{}),
	}
}

func (f *huntD2Device) Open(_ *transport.Args) error { return nil }

func (f *huntD2Device) Close() error {
	f.closeOne.Do(func() { close(f.closed) })

	return nil
}

func (f *huntD2Device) IsAlive() bool { return true }

func (f *huntD2Device) Read(_ int) ([]byte, error) {
	select {
	case b := <-f.in:
		return b, nil
	case <-f.closed:
		return nil, io.EOF
	}
}

// emit must be called with mu held.
func (f *huntD2Device) emit(b []byte) {
	if f.stalled {
		f.held = append(f.held, b...)

		return
	}

	f.in <- b
}

func (f *huntD2Device) output(cmd string) string {
	switch {
	case strings.Contains(cmd, "alpha"):
		return "ALPHA-OUTPUT\n"
	case strings.Contains(cmd, "beta"):
		return "BETA-OUTPUT\n"
	default:
		return ""
	}
}

func (f *huntD2Device) Write(b []byte) error {
	f.mu.Lock()
	defer f.mu.Unlock()

	for _, c := range b {
		if c != '\n' {
			f.line = append(f.line, c)
			f.emit([]byte{c})

			continue
		}

		cmd := string(f.line)
		f.line = nil

		if f.stallOn != "" && strings.Contains(cmd, f.stallOn) {
			// the return has arrived, the input line is clean, now the device goes silent.
			f.stalled = true
		}

		f.emit([]byte("\n" + f.output(cmd) + huntD2Prompt))
	}

	return nil
}

func (f *huntD2Device) resume() {
	f.mu.Lock()
	defer f.mu.Unlock()

	f.stalled = false
	f.stallOn = ""

	if len(f.held) > 0 {
		f.in <- f.held
		f.held = nil
	}
}

func huntD2Setup(t *testing.T) (*generic.Driver, *huntD2Device) {
	return huntD2SetupStall(t, "alpha")
}

func huntD2SetupStall(t *testing.T, stallOn string) (*generic.Driver, *huntD2Device) {
	dev := newHuntD2Device(stallOn)

	d, err := generic.NewDriver(
		"dummy",
		options.WithCustomTransport(dev),
		options.WithTimeoutOps(5*time.Second),
	)
	if err != nil {
		t.Fatalf("new driver: %s", err)
	}

	err = d.Open()
	if err != nil {
		t.Fatalf("open: %s", err)
	}

	if stallOn == "" {
		// control history: no stall, the first exchange simply succeeds.
		r, cerr := d.SendCommand("show alpha", opoptions.WithTimeoutOps(300*time.Millisecond))
		if cerr != nil || r.Result != "ALPHA-OUTPUT" {
			t.Fatalf("control exchange: %v %v", r, cerr)
		}

		return d, dev
	}

	// the first exchange: the device stalls right after it received the return; the operation
	// times out with its per-operation timeout -- as it should.
	start := time.Now()

	_, err = d.SendCommand("show alpha", opoptions.WithTimeoutOps(300*time.Millisecond))
	if !errors.Is(err, util.ErrTimeoutError) {
		t.Fatalf("expected a timeout error from the stalled exchange, got %v", err)
	}

	if time.Since(start) > 2*time.Second {
		t.Fatalf("timed out exchange took %s", time.Since(start))
	}

	// the device catches up: it prints the output of the first command and its prompt.
	dev.resume()

	time.Sleep(200 * time.Millisecond)

	return d, dev
}

// control: the next exchange is a plain SendCommand, it reads its own echo and so steps over
// the left over bytes -- this works.
func TestHuntD2ControlNextSendCommand(t *testing.T) {
	d, _ := huntD2Setup(t)

	defer d.Close() //nolint:errcheck

	r, err := d.SendCommand("show beta")
	if err != nil {
		t.Fatalf("next exchange failed: %s", err)
	}

	if r.Result != "BETA-OUTPUT" {
		t.Fatalf("next exchange returned %q, want %q", r.Result, "BETA-OUTPUT")
	}
}

func TestHuntD2NextSendInteractiveReturnsPreviousOutput(t *testing.T) {
	d, _ := huntD2Setup(t)

	defer d.Close() //nolint:errcheck

	r, err := d.SendInteractive(
		[]*channel.SendInteractiveEvent{
			{ChannelInput: "show beta", ChannelResponse: "", HideInput: false},
		},
	)
	if err != nil {
		t.Fatalf("next exchange failed: %s", err)
	}

	if strings.Contains(r.Result, "ALPHA-OUTPUT") || !strings.Contains(r.Result, "BETA-OUTPUT") {
		t.Fatalf(
			"the exchange after the timed out one did not return its own result: got %q, "+
				"want the output of 'show beta' (BETA-OUTPUT) and nothing of 'show alpha'",
			r.Result,
		)
	}
}

func TestHuntD2NextSendWithCallbacksReturnsPreviousOutput(t *testing.T) {
	d, _ := huntD2Setup(t)

	defer d.Close() //nolint:errcheck

	cb, err := generic.NewCallback(
		nil,
		opoptions.WithCallbackContains(huntD2Prompt),
		opoptions.WithCallbackComplete(),
	)
	if err != nil {
		t.Fatalf("new callback: %s", err)
	}

	r, err := d.SendWithCallbacks("show beta", []*generic.Callback{cb}, 2*time.Second)
	if err != nil {
		t.Fatalf("next exchange failed: %s", err)
	}

	if strings.Contains(r.Result, "ALPHA-OUTPUT") || !strings.Contains(r.Result, "BETA-OUTPUT") {
		t.Fatalf(
			"the exchange after the timed out one did not return its own result: got %q, "+
				"want the output of 'show beta' (BETA-OUTPUT) and nothing of 'show alpha'",
			r.Result,
		)
	}
}

// control: without the stall the very same interactive / callback exchanges return their own
// output, so the expectation of the failing tests is the library's own normal behaviour.
func TestHuntD2ControlNoStall(t *testing.T) {
	d, _ := huntD2SetupStall(t, "")

	defer d.Close() //nolint:errcheck

	r, err := d.SendInteractive(
		[]*channel.SendInteractiveEvent{
			{ChannelInput: "show beta", ChannelResponse: "", HideInput: false},
		},
	)
	if err != nil {
		t.Fatalf("interactive failed: %s", err)
	}

	if strings.Contains(r.Result, "ALPHA-OUTPUT") || !strings.Contains(r.Result, "BETA-OUTPUT") {
		t.Fatalf("interactive control returned %q", r.Result)
	}

	cb, err := generic.NewCallback(
		nil,
		opoptions.WithCallbackContains(huntD2Prompt),
		opoptions.WithCallbackComplete(),
	)
	if err != nil {
		t.Fatalf("new callback: %s", err)
	}

	r, err = d.SendWithCallbacks("show beta", []*generic.Callback{cb}, 2*time.Second)
	if err != nil {
		t.Fatalf("callbacks failed: %s", err)
	}

	if strings.Contains(r.Result, "ALPHA-OUTPUT") || !strings.Contains(r.Result, "BETA-OUTPUT") {
		t.Fatalf("callback control returned %q", r.Result)
	}
}
