package network_test

// Defect 4 (C05, "the per-operation timeout, when given, takes precedence over the
// connection-wide one"): the network driver's SendConfigs / SendConfig / SendInteractive /
// first SendCommand start with an implicit privilege acquisition (GetPrompt, escalate,
// deescalate) that never sees the per-operation timeout. When the device is silent from the
// first byte of the exchange (stall point k = 0) the operation waits out the connection-wide
// timeout although a much shorter per-operation timeout was given.
//
// drop into driver/network ; go test -vet=off -count=1 -run TestHuntD4 ./driver/network/

import (
	"io"
	"strings"
	"sync"
	"testing"
	"time"

	"github.com/scrapli/scrapligo/driver/network"
	"github.com/scrapli/scrapligo/driver/opoptions"
	"github.com/scrapli/scrapligo/driver/options"
	"github.com/scrapli/scrapligo/transport"
)

// huntD4Device: echoing cli with an exec and a configuration mode; silent once stalled.
type huntD4Device struct {
	mu      sync.Mutex
	line    []byte
	config  bool
	stalled bool

	in       chan []byte
	closed   chan struct{}
	closeOne sync.Once
}

func newHuntD4Device() *huntD4Device {
	return &huntD4Device{
		in:     make(chan []byte, 1024),
		closed: make(chan struct{}),
	}
}

func (f *huntD4Device) Open(_ *transport.Args) error { return nil }

func (f *huntD4Device) Close() error {
	f.closeOne.Do(func() { close(f.closed) })

	return nil
}

func (f *huntD4Device) IsAlive() bool { return true }

func (f *huntD4Device) Read(_ int) ([]byte, error) {
	select {
	case b := <-f.in:
		return b, nil
	case <-f.closed:
		return nil, io.EOF
	}
}

func (f *huntD4Device) prompt() string {
	if f.config {
		return "router(config)#"
	}

	return "router#"
}

func (f *huntD4Device) Write(b []byte) error {
	f.mu.Lock()
	defer f.mu.Unlock()

	if f.stalled {
		return nil
	}

	for _, c := range b {
		if c != '\n' {
			f.line = append(f.line, c)
			f.in <- []byte{c}

			continue
		}

		cmd := strings.TrimSpace(string(f.line))
		f.line = nil

		out := ""

		switch cmd {
		case "configure terminal":
			f.config = true
		case "end":
			f.config = false
		case "show version":
			out = "VERSION 1\n"
		}

		f.in <- []byte("\n" + out + f.prompt())
	}

	return nil
}

func (f *huntD4Device) stall() {
	f.mu.Lock()
	f.stalled = true
	f.mu.Unlock()
}

const (
	huntD4ConnTimeout = 4 * time.Second
	huntD4OpTimeout   = 300 * time.Millisecond
	huntD4Slack       = 700 * time.Millisecond
)

func huntD4Driver(t *testing.T) (*network.Driver, *huntD4Device) {
	dev := newHuntD4Device()

	d, err := network.NewDriver(
		"dummy",
		options.WithCustomTransport(dev),
		options.WithTimeoutOps(huntD4ConnTimeout),
		options.WithDefaultDesiredPriv("privilege-exec"),
		options.WithPrivilegeLevels(map[string]*network.PrivilegeLevel{
			"privilege-exec": {
				Name:    "privilege-exec",
				Pattern: `(?im)^[\w.\-]{1,63}#$`,
			},
			"configuration": {
				Name:         "configuration",
				Pattern:      `(?im)^[\w.\-]{1,63}\(config[\w.\-]*\)#$`,
				PreviousPriv: "privilege-exec",
				Deescalate:   "end",
				Escalate:     "configure terminal",
			},
		}),
	)
	if err != nil {
		t.Fatalf("new driver: %s", err)
	}

	err = d.Open()
	if err != nil {
		t.Fatalf("open: %s", err)
	}

	// the device is fine to begin with.
	r, err := d.SendCommand("show version")
	if err != nil || r.Result != "VERSION 1" {
		t.Fatalf("first exchange: %v %v", r, err)
	}

	return d, dev
}

func huntD4Check(t *testing.T, what string, start time.Time, err error) {
	elapsed := time.Since(start)

	if err == nil {
		t.Fatalf("%s against a silent device reported success", what)
	}

	if elapsed > huntD4OpTimeout+huntD4Slack {
		t.Fatalf(
			"%s was given a per-operation timeout of %s (connection-wide: %s), the device was "+
				"silent from the first byte, and the operation returned only after %s (%v)",
			what, huntD4OpTimeout, huntD4ConnTimeout, elapsed.Round(10*time.Millisecond), err,
		)
	}
}

// control: a stall inside the part of the exchange that does see the option is bounded by it.
func TestHuntD4ControlSendCommand(t *testing.T) {
	d, dev := huntD4Driver(t)

	defer d.Close() //nolint:errcheck

	dev.stall()

	start := time.Now()
	_, err := d.SendCommand("show version", opoptions.WithTimeoutOps(huntD4OpTimeout))

	huntD4Check(t, "SendCommand", start, err)
}

func TestHuntD4SendConfigsIgnoresPerOperationTimeout(t *testing.T) {
	d, dev := huntD4Driver(t)

	defer d.Close() //nolint:errcheck

	dev.stall()

	start := time.Now()
	_, err := d.SendConfigs([]string{"hostname x"}, opoptions.WithTimeoutOps(huntD4OpTimeout))

	huntD4Check(t, "SendConfigs", start, err)
}

func TestHuntD4SendInteractiveIgnoresPerOperationTimeout(t *testing.T) {
	d, dev := huntD4Driver(t)

	defer d.Close() //nolint:errcheck

	dev.stall()

	start := time.Now()
	_, err := d.SendInteractive(nil, opoptions.WithTimeoutOps(huntD4OpTimeout))

	huntD4Check(t, "SendInteractive", start, err)
}
