package netconf_test

// C08: a 1.1 reply whose first chunk ends inside the message-id attribute is dropped.
//
// Drop into driver/netconf and run:
//   go test -vet=off -count=1 -run 'TestHunt4_' ./driver/netconf/
//
// The fake transport below is a scripted NETCONF server: every push() is handed to the library as
// exactly one transport read, every client write is recorded.

import (
	"bytes"
	"fmt"
	"io"
	"strings"
	"sync"
	"testing"
	"time"

	"github.com/scrapli/scrapligo/driver/netconf"
	"github.com/scrapli/scrapligo/driver/options"
	"github.com/scrapli/scrapligo/transport"
	"github.com/scrapli/scrapligo/util"
)

const (
	hunt4Base10 = "urn:ietf:params:netconf:base:1.0"
	hunt4Base11 = "urn:ietf:params:netconf:base:1.1"
	hunt4NS     = "urn:ietf:params:xml:ns:netconf:base:1.0"
)

type hunt4Srv struct {
	mu     sync.Mutex
	in     chan []byte
	closed chan struct{}
	once   sync.Once
	wbuf   bytes.Buffer
}

func newHunt4Srv() *hunt4Srv {
	return &hunt4Srv{in: make(chan []byte, 256), closed: make(chan struct{})}
}

func (f *hunt4Srv) Open(*transport.Args) error { return nil }
func (f *hunt4Srv) IsAlive() bool              { return true }

func (f *hunt4Srv) Close() error {
	f.once.Do(func() { close(f.closed) })

	return nil
}

func (f *hunt4Srv) Read(int) ([]byte, error) {
	select {
	case b := <-f.in:
		return b, nil
	case <-f.closed:
		return nil, io.EOF
	}
}

func (f *hunt4Srv) Write(b []byte) error {
	f.mu.Lock()
	defer f.mu.Unlock()

	f.wbuf.Write(b)

	return nil
}

// push hands s to the library as one transport read.
func (f *hunt4Srv) push(s string) { f.in <- []byte(s) }

func (f *hunt4Srv) written() string {
	f.mu.Lock()
	defer f.mu.Unlock()

	return f.wbuf.String()
}

// waitWritten waits until the client has written sub at least n times.
func (f *hunt4Srv) waitWritten(sub string, n int) bool {
	dl := time.Now().Add(5 * time.Second)
	for time.Now().Before(dl) {
		if strings.Count(f.written(), sub) >= n {
			return true
		}

		time.Sleep(time.Millisecond)
	}

	return false
}

func hunt4Hello(caps ...string) string {
	s := `<?xml version="1.0" encoding="UTF-8"?>` + "\n" +
		`<hello xmlns="` + hunt4NS + `">` + "\n<capabilities>\n"
	for _, c := range caps {
		s += "<capability>" + c + "</capability>\n"
	}

	return s + "</capabilities>\n<session-id>7</session-id>\n</hello>]]>]]>"
}

// hunt4Open creates a driver on the fake server, lets the server send hello (one read per element
// of hello) and opens the session.
func hunt4Open(f *hunt4Srv, hello []string, opts ...util.Option) (*netconf.Driver, error) {
	o := []util.Option{
		options.WithCustomTransport(f),
		options.WithTimeoutOps(1500 * time.Millisecond),
	}
	o = append(o, opts...)

	d, err := netconf.NewDriver("dummy", o...)
	if err != nil {
		return nil, err
	}

	for _, h := range hello {
		f.push(h)
	}

	return d, d.Open()
}

// hunt4Chunk frames the parts as one RFC 6242 chunked message, one chunk per part.
func hunt4Chunk(parts ...string) string {
	s := ""
	for _, p := range parts {
		s += fmt.Sprintf("\n#%d\n%s", len(p), p)
	}

	return s + "\n##\n"
}

var _ = hunt4Chunk
var _ = hunt4Base10
var _ = hunt4Base11

func TestHunt4_ChunkBoundaryInsideMessageID(t *testing.T) {
	f := newHunt4Srv()

	d, err := hunt4Open(f, []string{hunt4Hello(hunt4Base11)})
	if err != nil {
		t.Fatalf("open: %v", err)
	}

	defer d.Close() //nolint:errcheck

	go func() {
		if !f.waitWritten("</rpc>", 1) {
			return
		}

		// control: two chunks, boundary after the attribute
		f.push(hunt4Chunk(
			`<rpc-reply xmlns="`+hunt4NS+`" message-id="101">`,
			`<ok/></rpc-reply>`,
		))

		if !f.waitWritten("</rpc>", 2) {
			return
		}

		// one complete, well formed RFC 6242 message in one read; two chunks, boundary inside the
		// attribute name
		f.push(hunt4Chunk(
			`<rpc-reply xmlns="`+hunt4NS+`" message-`,
			`id="102"><ok/></rpc-reply>`,
		))
	}()

	_, err = d.Get("")
	if err != nil {
		t.Fatalf("harness: control call failed: %v", err)
	}

	r, err := d.Get("")
	if err != nil {
		t.Fatalf("reply sent in full was lost: %v", err)
	}

	if !strings.Contains(r.Result, `message-id="102"`) {
		t.Fatalf("unexpected result %q", r.Result)
	}
}
