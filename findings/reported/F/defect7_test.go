package netconf_test

// C09: the session-id of a hello that uses a namespace prefix is not reported.
//
// Drop into driver/netconf and run:
//   go test -vet=off -count=1 -run 'TestHunt7_' ./driver/netconf/
//
// The fake transport below is a scripted NETCONF server: every push() is handed to the library as
// exactly one transport read, every client write is recorded.

import (
	"bytes"
	"fmt"
	"io"
	"strings"
	"sync"
	"testing"
	"time"

	"github.com/scrapli/scrapligo/driver/netconf"
	"github.com/scrapli/scrapligo/driver/options"
	"github.com/scrapli/scrapligo/transport"
	"github.com/scrapli/scrapligo/util"
)

const (
	hunt7Base10 = "urn:ietf:params:netconf:base:1.0"
	hunt7Base11 = "urn:ietf:params:netconf:base:1.1"
	hunt7NS     = "urn:ietf:params:xml:ns:netconf:base:1.0"
)

type hunt7Srv struct {
	mu     sync.Mutex
	in     chan []byte
	closed chan struct{}
	once   sync.Once
	wbuf   bytes.Buffer
}

func newHunt7Srv() *hunt7Srv {
	return &hunt7Srv{in: make(chan []byte, 256), closed: make(chan struct{})}
}

func (f *hunt7Srv) Open(*transport.Args) error { return nil }
func (f *hunt7Srv) IsAlive() bool              { return true }

func (f *hunt7Srv) Close() error {
	f.once.Do(func() { close(f.closed) })

	return nil
}

func (f *hunt7Srv) Read(int) ([]byte, error) {
	select {
	case b := <-f.in:
		return b, nil
	case <-f.closed:
		return nil, io.EOF
	}
}

func (f *hunt7Srv) Write(b []byte) error {
	f.mu.Lock()
	defer f.mu.Unlock()

	f.wbuf.Write(b)

	return nil
}

// push hands s to the library as one transport read.
func (f *hunt7Srv) push(s string) { f.in <- []byte(s) }

func (f *hunt7Srv) written() string {
	f.mu.Lock()
	defer f.mu.Unlock()

	return f.wbuf.String()
}

// waitWritten waits until the client has written sub at least n times.
func (f *hunt7Srv) waitWritten(sub string, n int) bool {
	dl := time.Now().Add(5 * time.Second)
	for time.Now().Before(dl) {
		if strings.Count(f.written(), sub) >= n {
			return true
		}

		time.Sleep(time.Millisecond)
	}

	return false
}

func hunt7Hello(caps ...string) string {
	s := `<?xml version="1.0" encoding="UTF-8"?>` + "\n" +
		`<hello xmlns="` + hunt7NS + `">` + "\n<capabilities>\n"
	for _, c := range caps {
		s += "<capability>" + c + "</capability>\n"
	}

	return s + "</capabilities>\n<session-id>7</session-id>\n</hello>]]>]]>"
}

// hunt7Open creates a driver on the fake server, lets the server send hello (one read per element
// of hello) and opens the session.
func hunt7Open(f *hunt7Srv, hello []string, opts ...util.Option) (*netconf.Driver, error) {
	o := []util.Option{
		options.WithCustomTransport(f),
		options.WithTimeoutOps(1500 * time.Millisecond),
	}
	o = append(o, opts...)

	d, err := netconf.NewDriver("dummy", o...)
	if err != nil {
		return nil, err
	}

	for _, h := range hello {
		f.push(h)
	}

	return d, d.Open()
}

// hunt7Chunk frames the parts as one RFC 6242 chunked message, one chunk per part.
func hunt7Chunk(parts ...string) string {
	s := ""
	for _, p := range parts {
		s += fmt.Sprintf("\n#%d\n%s", len(p), p)
	}

	return s + "\n##\n"
}

var _ = hunt7Chunk
var _ = hunt7Base10
var _ = hunt7Base11

func hunt7PrefixedHello(p string) string {
	x := ""
	if p != "" {
		x = p + ":"
	}

	xmlns := "xmlns"
	if p != "" {
		xmlns = "xmlns:" + p
	}

	return `<?xml version="1.0" encoding="UTF-8"?>` + "\n" +
		"<" + x + "hello " + xmlns + `="` + hunt7NS + `">` + "\n" +
		"<" + x + "capabilities>\n" +
		"<" + x + "capability>" + hunt7Base10 + "</" + x + "capability>\n" +
		"<" + x + "capability>" + hunt7Base11 + "</" + x + "capability>\n" +
		"</" + x + "capabilities>\n" +
		"<" + x + "session-id>4711</" + x + "session-id>\n" +
		"</" + x + "hello>]]>]]>"
}

func TestHunt7_PrefixedSessionID(t *testing.T) {
	for _, prefix := range []string{"", "nc"} {
		f := newHunt7Srv()

		d, err := hunt7Open(f, []string{hunt7PrefixedHello(prefix)})
		if err != nil {
			t.Fatalf("prefix %q: open: %v", prefix, err)
		}

		if d.SelectedVersion != netconf.V1Dot1 || len(d.ServerCapabilities()) != 2 {
			t.Errorf("prefix %q: version %q capabilities %v",
				prefix, d.SelectedVersion, d.ServerCapabilities())
		}

		if d.SessionID() != 4711 {
			t.Errorf("prefix %q: hello carries session-id 4711, SessionID() reports %d",
				prefix, d.SessionID())
		}

		_ = d.Close()
	}
}
