package netconf_test

// C09: a hello whose last line is longer than the prompt search depth and that arrives with a trailing newline in the same read is never recognised.
//
// Drop into driver/netconf and run:
//   go test -vet=off -count=1 -run 'TestHunt8_' ./driver/netconf/
//
// The fake transport below is a scripted NETCONF server: every push() is handed to the library as
// exactly one transport read, every client write is recorded.

import (
	"bytes"
	"fmt"
	"io"
	"strings"
	"sync"
	"testing"
	"time"

	"github.com/scrapli/scrapligo/driver/netconf"
	"github.com/scrapli/scrapligo/driver/options"
	"github.com/scrapli/scrapligo/transport"
	"github.com/scrapli/scrapligo/util"
)

const (
	hunt8Base10 = "urn:ietf:params:netconf:base:1.0"
	hunt8Base11 = "urn:ietf:params:netconf:base:1.1"
	hunt8NS     = "urn:ietf:params:xml:ns:netconf:base:1.0"
)

type hunt8Srv struct {
	mu     sync.Mutex
	in     chan []byte
	closed chan struct{}
	once   sync.Once
	wbuf   bytes.Buffer
}

func newHunt8Srv() *hunt8Srv {
	return &hunt8Srv{in: make(chan []byte, 256), closed: make(chan struct{})}
}

func (f *hunt8Srv) Open(*transport.Args) error { return nil }
func (f *hunt8Srv) IsAlive() bool              { return true }

func (f *hunt8Srv) Close() error {
	f.once.Do(func() { close(f.closed) })

	return nil
}

func (f *hunt8Srv) Read(int) ([]byte, error) {
	select {
	case b := <-f.in:
		return b, nil
	case <-f.closed:
		return nil, io.EOF
	}
}

func (f *hunt8Srv) Write(b []byte) error {
	f.mu.Lock()
	defer f.mu.Unlock()

	f.wbuf.Write(b)

	return nil
}

// push hands s to the library as one transport read.
func (f *hunt8Srv) push(s string) { f.in <- []byte(s) }

func (f *hunt8Srv) written() string {
	f.mu.Lock()
	defer f.mu.Unlock()

	return f.wbuf.String()
}

// waitWritten waits until the client has written sub at least n times.
func (f *hunt8Srv) waitWritten(sub string, n int) bool {
	dl := time.Now().Add(5 * time.Second)
	for time.Now().Before(dl) {
		if strings.Count(f.written(), sub) >= n {
			return true
		}

		time.Sleep(time.Millisecond)
	}

	return false
}

func hunt8Hello(caps ...string) string {
	s := `<?xml version="1.0" encoding="UTF-8"?>` + "\n" +
		`<hello xmlns="` + hunt8NS + `">` + "\n<capabilities>\n"
	for _, c := range caps {
		s += "<capability>" + c + "</capability>\n"
	}

	return s + "</capabilities>\n<session-id>7</session-id>\n</hello>]]>]]>"
}

// hunt8Open creates a driver on the fake server, lets the server send hello (one read per element
// of hello) and opens the session.
func hunt8Open(f *hunt8Srv, hello []string, opts ...util.Option) (*netconf.Driver, error) {
	o := []util.Option{
		options.WithCustomTransport(f),
		options.WithTimeoutOps(1500 * time.Millisecond),
	}
	o = append(o, opts...)

	d, err := netconf.NewDriver("dummy", o...)
	if err != nil {
		return nil, err
	}

	for _, h := range hello {
		f.push(h)
	}

	return d, d.Open()
}

// hunt8Chunk frames the parts as one RFC 6242 chunked message, one chunk per part.
func hunt8Chunk(parts ...string) string {
	s := ""
	for _, p := range parts {
		s += fmt.Sprintf("\n#%d\n%s", len(p), p)
	}

	return s + "\n##\n"
}

var _ = hunt8Chunk
var _ = hunt8Base10
var _ = hunt8Base11

func hunt8LongHello() string {
	h := `<hello xmlns="` + hunt8NS + `"><capabilities>` +
		`<capability>` + hunt8Base10 + `</capability>` +
		`<capability>` + hunt8Base11 + `</capability>`

	for i := 0; i < 30; i++ {
		h += fmt.Sprintf(
			"<capability>urn:example:params:xml:ns:yang:mod-%02d?module=mod-%02d</capability>", i, i,
		)
	}

	return h + `</capabilities><session-id>4</session-id></hello>]]>]]>`
}

func TestHunt8_OneLineHelloWithTrailingNewline(t *testing.T) {
	// control: same hello, the newline after the delimiter comes in the next read
	f := newHunt8Srv()

	d, err := hunt8Open(f, []string{hunt8LongHello(), "\n"})
	if err != nil {
		t.Fatalf("harness: control open failed: %v", err)
	}

	if d.SelectedVersion != netconf.V1Dot1 || len(d.ServerCapabilities()) != 32 {
		t.Fatalf("harness: control: %q %d", d.SelectedVersion, len(d.ServerCapabilities()))
	}

	_ = d.Close()

	// same bytes, one read
	f = newHunt8Srv()

	d, err = hunt8Open(f, []string{hunt8LongHello() + "\n"})
	if err != nil {
		t.Fatalf("server sent a complete hello advertising base:1.0 and base:1.1 (%d bytes, one read),"+
			" open failed: %v", len(hunt8LongHello())+1, err)
	}

	if d.SelectedVersion != netconf.V1Dot1 {
		t.Errorf("selected %q", d.SelectedVersion)
	}

	_ = d.Close()
}
