package netconf_test

// C08: a late reply that arrives between two reads of the echo of the next request is returned to that next request.
//
// Drop into driver/netconf and run:
//   go test -vet=off -count=1 -run 'TestHunt1_' ./driver/netconf/
//
// The fake transport below is a scripted NETCONF server: every push() is handed to the library as
// exactly one transport read, every client write is recorded.

import (
	"bytes"
	"fmt"
	"io"
	"strings"
	"sync"
	"testing"
	"time"

	"github.com/scrapli/scrapligo/driver/netconf"
	"github.com/scrapli/scrapligo/driver/options"
	"github.com/scrapli/scrapligo/transport"
	"github.com/scrapli/scrapligo/util"
)

const (
	hunt1Base10 = "urn:ietf:params:netconf:base:1.0"
	hunt1Base11 = "urn:ietf:params:netconf:base:1.1"
	hunt1NS     = "urn:ietf:params:xml:ns:netconf:base:1.0"
)

type hunt1Srv struct {
	mu     sync.Mutex
	in     chan []byte
	closed chan struct{}
	once   sync.Once
	wbuf   bytes.Buffer
}

func newHunt1Srv() *hunt1Srv {
	return &hunt1Srv{in: make(chan []byte, 256), closed: make(chan struct{})}
}

func (f *hunt1Srv) Open(*transport.Args) error { return nil }
func (f *hunt1Srv) IsAlive() bool              { return true }

func (f *hunt1Srv) Close() error {
	f.once.Do(func() { close(f.closed) })

	return nil
}

func (f *hunt1Srv) Read(int) ([]byte, error) {
	select {
	case b := <-f.in:
		return b, nil
	case <-f.closed:
		return nil, io.EOF
	}
}

func (f *hunt1Srv) Write(b []byte) error {
	f.mu.Lock()
	defer f.mu.Unlock()

	f.wbuf.Write(b)

	return nil
}

// push hands s to the library as one transport read.
func (f *hunt1Srv) push(s string) { f.in <- []byte(s) }

func (f *hunt1Srv) written() string {
	f.mu.Lock()
	defer f.mu.Unlock()

	return f.wbuf.String()
}

// waitWritten waits until the client has written sub at least n times.
func (f *hunt1Srv) waitWritten(sub string, n int) bool {
	dl := time.Now().Add(5 * time.Second)
	for time.Now().Before(dl) {
		if strings.Count(f.written(), sub) >= n {
			return true
		}

		time.Sleep(time.Millisecond)
	}

	return false
}

func hunt1Hello(caps ...string) string {
	s := `<?xml version="1.0" encoding="UTF-8"?>` + "\n" +
		`<hello xmlns="` + hunt1NS + `">` + "\n<capabilities>\n"
	for _, c := range caps {
		s += "<capability>" + c + "</capability>\n"
	}

	return s + "</capabilities>\n<session-id>7</session-id>\n</hello>]]>]]>"
}

// hunt1Open creates a driver on the fake server, lets the server send hello (one read per element
// of hello) and opens the session.
func hunt1Open(f *hunt1Srv, hello []string, opts ...util.Option) (*netconf.Driver, error) {
	o := []util.Option{
		options.WithCustomTransport(f),
		options.WithTimeoutOps(1500 * time.Millisecond),
	}
	o = append(o, opts...)

	d, err := netconf.NewDriver("dummy", o...)
	if err != nil {
		return nil, err
	}

	for _, h := range hello {
		f.push(h)
	}

	return d, d.Open()
}

// hunt1Chunk frames the parts as one RFC 6242 chunked message, one chunk per part.
func hunt1Chunk(parts ...string) string {
	s := ""
	for _, p := range parts {
		s += fmt.Sprintf("\n#%d\n%s", len(p), p)
	}

	return s + "\n##\n"
}

var _ = hunt1Chunk
var _ = hunt1Base10
var _ = hunt1Base11

func TestHunt1_LateReplyBetweenEchoReadsGoesToNextCall(t *testing.T) {
	f := newHunt1Srv()

	d, err := hunt1Open(f, []string{hunt1Hello(hunt1Base10)})
	if err != nil {
		t.Fatalf("open: %v", err)
	}

	defer d.Close() //nolint:errcheck

	if d.SelectedVersion != netconf.V1Dot0 {
		t.Fatalf("harness: expected 1.0, got %q", d.SelectedVersion)
	}

	helloEnd := len(f.written())

	// request 101: the transport echoes it, the server stays silent until the client gave up.
	go func() {
		if !f.waitWritten("</rpc>]]>]]>\n", 1) {
			return
		}

		f.push(f.written()[helloEnd:]) // echo of request 101, whole, one read
	}()

	_, err = d.Get("")
	if err == nil {
		t.Fatalf("harness: call 101 should have timed out")
	}

	after101 := len(f.written())

	// request 102: its echo comes back in two reads; the late reply to 101 is delivered between
	// them (its own read, whole); then the reply to 102 (its own read, whole).
	go func() {
		if !f.waitWritten("</rpc>]]>]]>\n", 2) {
			return
		}

		echo := f.written()[after101:]
		cut := strings.Index(echo, "<source>")

		f.push(echo[:cut])
		time.Sleep(20 * time.Millisecond)
		f.push(`<rpc-reply message-id="101" xmlns="` + hunt1NS +
			`"><data>REPLY-TO-101</data></rpc-reply>]]>]]>` + "\n")
		time.Sleep(20 * time.Millisecond)
		f.push(echo[cut:])
		time.Sleep(20 * time.Millisecond)
		f.push(`<rpc-reply message-id="102" xmlns="` + hunt1NS +
			`"><data>REPLY-TO-102</data></rpc-reply>]]>]]>` + "\n")
	}()

	r, err := d.GetConfig("running")
	if err != nil {
		// an error would be acceptable under the property
		t.Logf("call 102 returned error %v", err)

		return
	}

	if !strings.Contains(string(r.Input), `message-id="102"`) {
		t.Fatalf("harness: second request is not 102: %s", r.Input)
	}

	if strings.Contains(r.Result, "REPLY-TO-101") || !strings.Contains(r.Result, "REPLY-TO-102") {
		t.Fatalf("call with message-id 102 was given the reply to 101:\n%s", r.Result)
	}
}
