package netconf_test

// C09: capabilities (and session-id) laid out with white space around the element text are not recognised.
//
// Drop into driver/netconf and run:
//   go test -vet=off -count=1 -run 'TestHunt9_' ./driver/netconf/
//
// The fake transport below is a scripted NETCONF server: every push() is handed to the library as
// exactly one transport read, every client write is recorded.

import (
	"bytes"
	"fmt"
	"io"
	"strings"
	"sync"
	"testing"
	"time"

	"github.com/scrapli/scrapligo/driver/netconf"
	"github.com/scrapli/scrapligo/driver/options"
	"github.com/scrapli/scrapligo/transport"
	"github.com/scrapli/scrapligo/util"
)

const (
	hunt9Base10 = "urn:ietf:params:netconf:base:1.0"
	hunt9Base11 = "urn:ietf:params:netconf:base:1.1"
	hunt9NS     = "urn:ietf:params:xml:ns:netconf:base:1.0"
)

type hunt9Srv struct {
	mu     sync.Mutex
	in     chan []byte
	closed chan struct{}
	once   sync.Once
	wbuf   bytes.Buffer
}

func newHunt9Srv() *hunt9Srv {
	return &hunt9Srv{in: make(chan []byte, 256), closed: make(chan struct{})}
}

func (f *hunt9Srv) Open(*transport.Args) error { return nil }
func (f *hunt9Srv) IsAlive() bool              { return true }

func (f *hunt9Srv) Close() error {
	f.once.Do(func() { close(f.closed) })

	return nil
}

func (f *hunt9Srv) Read(int) ([]byte, error) {
	select {
	case b := <-f.in:
		return b, nil
	case <-f.closed:
		return nil, io.EOF
	}
}

func (f *hunt9Srv) Write(b []byte) error {
	f.mu.Lock()
	defer f.mu.Unlock()

	f.wbuf.Write(b)

	return nil
}

// push hands s to the library as one transport read.
func (f *hunt9Srv) push(s string) { f.in <- []byte(s) }

func (f *hunt9Srv) written() string {
	f.mu.Lock()
	defer f.mu.Unlock()

	return f.wbuf.String()
}

// waitWritten waits until the client has written sub at least n times.
func (f *hunt9Srv) waitWritten(sub string, n int) bool {
	dl := time.Now().Add(5 * time.Second)
	for time.Now().Before(dl) {
		if strings.Count(f.written(), sub) >= n {
			return true
		}

		time.Sleep(time.Millisecond)
	}

	return false
}

func hunt9Hello(caps ...string) string {
	s := `<?xml version="1.0" encoding="UTF-8"?>` + "\n" +
		`<hello xmlns="` + hunt9NS + `">` + "\n<capabilities>\n"
	for _, c := range caps {
		s += "<capability>" + c + "</capability>\n"
	}

	return s + "</capabilities>\n<session-id>7</session-id>\n</hello>]]>]]>"
}

// hunt9Open creates a driver on the fake server, lets the server send hello (one read per element
// of hello) and opens the session.
func hunt9Open(f *hunt9Srv, hello []string, opts ...util.Option) (*netconf.Driver, error) {
	o := []util.Option{
		options.WithCustomTransport(f),
		options.WithTimeoutOps(1500 * time.Millisecond),
	}
	o = append(o, opts...)

	d, err := netconf.NewDriver("dummy", o...)
	if err != nil {
		return nil, err
	}

	for _, h := range hello {
		f.push(h)
	}

	return d, d.Open()
}

// hunt9Chunk frames the parts as one RFC 6242 chunked message, one chunk per part.
func hunt9Chunk(parts ...string) string {
	s := ""
	for _, p := range parts {
		s += fmt.Sprintf("\n#%d\n%s", len(p), p)
	}

	return s + "\n##\n"
}

var _ = hunt9Chunk
var _ = hunt9Base10
var _ = hunt9Base11

func TestHunt9_CapabilityTextWithWhitespace(t *testing.T) {
	hello := `<?xml version="1.0" encoding="UTF-8"?>
<hello xmlns="` + hunt9NS + `">
  <capabilities>
    <capability>
      ` + hunt9Base10 + `
    </capability>
    <capability>
      ` + hunt9Base11 + `
    </capability>
  </capabilities>
  <session-id>
    12
  </session-id>
</hello>
]]>]]>`

	f := newHunt9Srv()

	d, err := hunt9Open(f, []string{hello})
	if err != nil {
		t.Fatalf("server advertises base:1.0 and base:1.1, open failed: %v", err)
	}

	defer d.Close() //nolint:errcheck

	if d.SelectedVersion != netconf.V1Dot1 {
		t.Errorf("selected %q, want 1.1", d.SelectedVersion)
	}

	caps := d.ServerCapabilities()
	if len(caps) != 2 || caps[0] != hunt9Base10 || caps[1] != hunt9Base11 {
		t.Errorf("capabilities %q", caps)
	}

	if d.SessionID() != 12 {
		t.Errorf("session id %d, want 12", d.SessionID())
	}
}

func TestHunt9_CapabilityTextWithBlanksOnOneLine(t *testing.T) {
	hello := `<hello xmlns="` + hunt9NS + `"><capabilities>` +
		`<capability> ` + hunt9Base11 + ` </capability>` +
		`</capabilities><session-id>12</session-id></hello>]]>]]>`

	f := newHunt9Srv()

	d, err := hunt9Open(f, []string{hello})
	if err != nil {
		t.Fatalf("server advertises base:1.1, open failed: %v", err)
	}

	defer d.Close() //nolint:errcheck

	if d.SelectedVersion != netconf.V1Dot1 {
		t.Errorf("selected %q, want 1.1", d.SelectedVersion)
	}
}
