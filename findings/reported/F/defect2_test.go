package netconf_test

// C08: a 1.1 reply whose payload has a line beginning with ## is cut when a read ends right after the two hashes.
//
// Drop into driver/netconf and run:
//   go test -vet=off -count=1 -run 'TestHunt2_' ./driver/netconf/
//
// The fake transport below is a scripted NETCONF server: every push() is handed to the library as
// exactly one transport read, every client write is recorded.

import (
	"bytes"
	"fmt"
	"io"
	"strings"
	"sync"
	"testing"
	"time"

	"github.com/scrapli/scrapligo/driver/netconf"
	"github.com/scrapli/scrapligo/driver/options"
	"github.com/scrapli/scrapligo/transport"
	"github.com/scrapli/scrapligo/util"
)

const (
	hunt2Base10 = "urn:ietf:params:netconf:base:1.0"
	hunt2Base11 = "urn:ietf:params:netconf:base:1.1"
	hunt2NS     = "urn:ietf:params:xml:ns:netconf:base:1.0"
)

type hunt2Srv struct {
	mu     sync.Mutex
	in     chan []byte
	closed chan struct{}
	once   sync.Once
	wbuf   bytes.Buffer
}

func newHunt2Srv() *hunt2Srv {
	return &hunt2Srv{in: make(chan []byte, 256), closed: make(chan struct{})}
}

func (f *hunt2Srv) Open(*transport.Args) error { return nil }
func (f *hunt2Srv) IsAlive() bool              { return true }

func (f *hunt2Srv) Close() error {
	f.once.Do(func() { close(f.closed) })

	return nil
}

func (f *hunt2Srv) Read(int) ([]byte, error) {
	select {
	case b := <-f.in:
		return b, nil
	case <-f.closed:
		return nil, io.EOF
	}
}

func (f *hunt2Srv) Write(b []byte) error {
	f.mu.Lock()
	defer f.mu.Unlock()

	f.wbuf.Write(b)

	return nil
}

// push hands s to the library as one transport read.
func (f *hunt2Srv) push(s string) { f.in <- []byte(s) }

func (f *hunt2Srv) written() string {
	f.mu.Lock()
	defer f.mu.Unlock()

	return f.wbuf.String()
}

// waitWritten waits until the client has written sub at least n times.
func (f *hunt2Srv) waitWritten(sub string, n int) bool {
	dl := time.Now().Add(5 * time.Second)
	for time.Now().Before(dl) {
		if strings.Count(f.written(), sub) >= n {
			return true
		}

		time.Sleep(time.Millisecond)
	}

	return false
}

func hunt2Hello(caps ...string) string {
	s := `<?xml version="1.0" encoding="UTF-8"?>` + "\n" +
		`<hello xmlns="` + hunt2NS + `">` + "\n<capabilities>\n"
	for _, c := range caps {
		s += "<capability>" + c + "</capability>\n"
	}

	return s + "</capabilities>\n<session-id>7</session-id>\n</hello>]]>]]>"
}

// hunt2Open creates a driver on the fake server, lets the server send hello (one read per element
// of hello) and opens the session.
func hunt2Open(f *hunt2Srv, hello []string, opts ...util.Option) (*netconf.Driver, error) {
	o := []util.Option{
		options.WithCustomTransport(f),
		options.WithTimeoutOps(1500 * time.Millisecond),
	}
	o = append(o, opts...)

	d, err := netconf.NewDriver("dummy", o...)
	if err != nil {
		return nil, err
	}

	for _, h := range hello {
		f.push(h)
	}

	return d, d.Open()
}

// hunt2Chunk frames the parts as one RFC 6242 chunked message, one chunk per part.
func hunt2Chunk(parts ...string) string {
	s := ""
	for _, p := range parts {
		s += fmt.Sprintf("\n#%d\n%s", len(p), p)
	}

	return s + "\n##\n"
}

var _ = hunt2Chunk
var _ = hunt2Base10
var _ = hunt2Base11

func TestHunt2_ReplyCutAtReadEndingInTwoHashes(t *testing.T) {
	f := newHunt2Srv()

	d, err := hunt2Open(f, []string{hunt2Hello(hunt2Base11)})
	if err != nil {
		t.Fatalf("open: %v", err)
	}

	defer d.Close() //nolint:errcheck

	body := `<rpc-reply message-id="101" xmlns="` + hunt2NS + `"><data><banner>` +
		"\n########## AUTHORIZED USE ONLY ##########\n" + `</banner></data></rpc-reply>`
	full := hunt2Chunk(body)
	cut := strings.Index(full, "\n####") + 3 // the read ends after the first two hashes of the line

	go func() {
		if !f.waitWritten("</rpc>", 1) {
			return
		}

		f.push(full[:cut])
		time.Sleep(20 * time.Millisecond)
		f.push(full[cut:])
	}()

	r, err := d.Get("")
	if err != nil {
		t.Fatalf("reply sent in full was lost: %v", err)
	}

	if r.Failed != nil || r.Result != body {
		t.Fatalf("reply sent in full was not delivered.\nraw   : %q\nresult: %q\nfailed: %v",
			r.RawResult, r.Result, r.Failed)
	}
}
