package netconf_test

// C08: on a non-echoing transport a reply that contains an element named rpc is taken for an echo and dropped.
//
// Drop into driver/netconf and run:
//   go test -vet=off -count=1 -run 'TestHunt6_' ./driver/netconf/
//
// The fake transport below is a scripted NETCONF server: every push() is handed to the library as
// exactly one transport read, every client write is recorded.

import (
	"bytes"
	"fmt"
	"io"
	"strings"
	"sync"
	"testing"
	"time"

	"github.com/scrapli/scrapligo/driver/netconf"
	"github.com/scrapli/scrapligo/driver/opoptions"
	"github.com/scrapli/scrapligo/driver/options"
	"github.com/scrapli/scrapligo/transport"
	"github.com/scrapli/scrapligo/util"
)

const (
	hunt6Base10 = "urn:ietf:params:netconf:base:1.0"
	hunt6Base11 = "urn:ietf:params:netconf:base:1.1"
	hunt6NS     = "urn:ietf:params:xml:ns:netconf:base:1.0"
)

type hunt6Srv struct {
	mu     sync.Mutex
	in     chan []byte
	closed chan struct{}
	once   sync.Once
	wbuf   bytes.Buffer
}

func newHunt6Srv() *hunt6Srv {
	return &hunt6Srv{in: make(chan []byte, 256), closed: make(chan struct{})}
}

func (f *hunt6Srv) Open(*transport.Args) error { return nil }
func (f *hunt6Srv) IsAlive() bool              { return true }

func (f *hunt6Srv) Close() error {
	f.once.Do(func() { close(f.closed) })

	return nil
}

func (f *hunt6Srv) Read(int) ([]byte, error) {
	select {
	case b := <-f.in:
		return b, nil
	case <-f.closed:
		return nil, io.EOF
	}
}

func (f *hunt6Srv) Write(b []byte) error {
	f.mu.Lock()
	defer f.mu.Unlock()

	f.wbuf.Write(b)

	return nil
}

// push hands s to the library as one transport read.
func (f *hunt6Srv) push(s string) { f.in <- []byte(s) }

func (f *hunt6Srv) written() string {
	f.mu.Lock()
	defer f.mu.Unlock()

	return f.wbuf.String()
}

// waitWritten waits until the client has written sub at least n times.
func (f *hunt6Srv) waitWritten(sub string, n int) bool {
	dl := time.Now().Add(5 * time.Second)
	for time.Now().Before(dl) {
		if strings.Count(f.written(), sub) >= n {
			return true
		}

		time.Sleep(time.Millisecond)
	}

	return false
}

func hunt6Hello(caps ...string) string {
	s := `<?xml version="1.0" encoding="UTF-8"?>` + "\n" +
		`<hello xmlns="` + hunt6NS + `">` + "\n<capabilities>\n"
	for _, c := range caps {
		s += "<capability>" + c + "</capability>\n"
	}

	return s + "</capabilities>\n<session-id>7</session-id>\n</hello>]]>]]>"
}

// hunt6Open creates a driver on the fake server, lets the server send hello (one read per element
// of hello) and opens the session.
func hunt6Open(f *hunt6Srv, hello []string, opts ...util.Option) (*netconf.Driver, error) {
	o := []util.Option{
		options.WithCustomTransport(f),
		options.WithTimeoutOps(1500 * time.Millisecond),
	}
	o = append(o, opts...)

	d, err := netconf.NewDriver("dummy", o...)
	if err != nil {
		return nil, err
	}

	for _, h := range hello {
		f.push(h)
	}

	return d, d.Open()
}

// hunt6Chunk frames the parts as one RFC 6242 chunked message, one chunk per part.
func hunt6Chunk(parts ...string) string {
	s := ""
	for _, p := range parts {
		s += fmt.Sprintf("\n#%d\n%s", len(p), p)
	}

	return s + "\n##\n"
}

var _ = hunt6Chunk
var _ = hunt6Base10
var _ = hunt6Base11

func TestHunt6_ReplyContainingRPCElementDropped(t *testing.T) {
	f := newHunt6Srv()

	d, err := hunt6Open(f, []string{hunt6Hello(hunt6Base10)})
	if err != nil {
		t.Fatalf("open: %v", err)
	}

	defer d.Close() //nolint:errcheck

	go func() {
		if !f.waitWritten("</rpc>", 1) {
			return
		}

		// control
		f.push(`<rpc-reply message-id="101" xmlns="` + hunt6NS + `">` +
			`<software-information><version>1</version></software-information>` +
			`</rpc-reply>]]>]]>` + "\n")

		if !f.waitWritten("</rpc>", 2) {
			return
		}

		// what Junos answers to <command>show version | display xml rpc</command>
		f.push(`<rpc-reply message-id="102" xmlns="` + hunt6NS + `">` +
			`<rpc><get-software-information></get-software-information></rpc>` +
			`</rpc-reply>]]>]]>` + "\n")
	}()

	_, err = d.RPC(opoptions.WithFilter(`<command>show version</command>`))
	if err != nil {
		t.Fatalf("harness: control call failed: %v", err)
	}

	r, err := d.RPC(opoptions.WithFilter(`<command>show version | display xml rpc</command>`))
	if err != nil {
		t.Fatalf("reply sent in full was lost: %v", err)
	}

	if !strings.Contains(r.Result, "get-software-information") {
		t.Fatalf("unexpected result %q", r.Result)
	}
}
