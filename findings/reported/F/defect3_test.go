package netconf_test

// C08: on an echoing 1.1 transport the echo of a request with a payload line beginning with ## is filed as the reply to that request.
//
// Drop into driver/netconf and run:
//   go test -vet=off -count=1 -run 'TestHunt3_' ./driver/netconf/
//
// The fake transport below is a scripted NETCONF server: every push() is handed to the library as
// exactly one transport read, every client write is recorded.

import (
	"bytes"
	"fmt"
	"io"
	"strings"
	"sync"
	"testing"
	"time"

	"github.com/scrapli/scrapligo/driver/netconf"
	"github.com/scrapli/scrapligo/driver/options"
	"github.com/scrapli/scrapligo/transport"
	"github.com/scrapli/scrapligo/util"
)

const (
	hunt3Base10 = "urn:ietf:params:netconf:base:1.0"
	hunt3Base11 = "urn:ietf:params:netconf:base:1.1"
	hunt3NS     = "urn:ietf:params:xml:ns:netconf:base:1.0"
)

type hunt3Srv struct {
	mu     sync.Mutex
	in     chan []byte
	closed chan struct{}
	once   sync.Once
	wbuf   bytes.Buffer
}

func newHunt3Srv() *hunt3Srv {
	return &hunt3Srv{in: make(chan []byte, 256), closed: make(chan struct{})}
}

func (f *hunt3Srv) Open(*transport.Args) error { return nil }
func (f *hunt3Srv) IsAlive() bool              { return true }

func (f *hunt3Srv) Close() error {
	f.once.Do(func() { close(f.closed) })

	return nil
}

func (f *hunt3Srv) Read(int) ([]byte, error) {
	select {
	case b := <-f.in:
		return b, nil
	case <-f.closed:
		return nil, io.EOF
	}
}

func (f *hunt3Srv) Write(b []byte) error {
	f.mu.Lock()
	defer f.mu.Unlock()

	f.wbuf.Write(b)

	return nil
}

// push hands s to the library as one transport read.
func (f *hunt3Srv) push(s string) { f.in <- []byte(s) }

func (f *hunt3Srv) written() string {
	f.mu.Lock()
	defer f.mu.Unlock()

	return f.wbuf.String()
}

// waitWritten waits until the client has written sub at least n times.
func (f *hunt3Srv) waitWritten(sub string, n int) bool {
	dl := time.Now().Add(5 * time.Second)
	for time.Now().Before(dl) {
		if strings.Count(f.written(), sub) >= n {
			return true
		}

		time.Sleep(time.Millisecond)
	}

	return false
}

func hunt3Hello(caps ...string) string {
	s := `<?xml version="1.0" encoding="UTF-8"?>` + "\n" +
		`<hello xmlns="` + hunt3NS + `">` + "\n<capabilities>\n"
	for _, c := range caps {
		s += "<capability>" + c + "</capability>\n"
	}

	return s + "</capabilities>\n<session-id>7</session-id>\n</hello>]]>]]>"
}

// hunt3Open creates a driver on the fake server, lets the server send hello (one read per element
// of hello) and opens the session.
func hunt3Open(f *hunt3Srv, hello []string, opts ...util.Option) (*netconf.Driver, error) {
	o := []util.Option{
		options.WithCustomTransport(f),
		options.WithTimeoutOps(1500 * time.Millisecond),
	}
	o = append(o, opts...)

	d, err := netconf.NewDriver("dummy", o...)
	if err != nil {
		return nil, err
	}

	for _, h := range hello {
		f.push(h)
	}

	return d, d.Open()
}

// hunt3Chunk frames the parts as one RFC 6242 chunked message, one chunk per part.
func hunt3Chunk(parts ...string) string {
	s := ""
	for _, p := range parts {
		s += fmt.Sprintf("\n#%d\n%s", len(p), p)
	}

	return s + "\n##\n"
}

var _ = hunt3Chunk
var _ = hunt3Base10
var _ = hunt3Base11

func TestHunt3_EchoOfOwnRequestReturnedAsReply(t *testing.T) {
	f := newHunt3Srv()

	d, err := hunt3Open(f, []string{hunt3Hello(hunt3Base11)})
	if err != nil {
		t.Fatalf("open: %v", err)
	}

	defer d.Close() //nolint:errcheck

	helloEnd := strings.Index(f.written(), "]]>]]>\n") + len("]]>]]>\n")

	go func() {
		if !f.waitWritten("\n##\n\n", 1) {
			return
		}

		echo := f.written()[helloEnd:]
		cut := strings.Index(echo, "\n####") + 3

		// the echo of the request arrives in two reads, the first one ending after "\n##"
		f.push(echo[:cut])
		time.Sleep(20 * time.Millisecond)
		f.push(echo[cut:])
		time.Sleep(20 * time.Millisecond)
		// then the server's reply, whole, in its own read
		f.push(hunt3Chunk(`<rpc-reply message-id="101" xmlns="` + hunt3NS + `"><ok/></rpc-reply>`))
	}()

	r, err := d.EditConfig(
		"candidate",
		"<config><banner>\n########\nkeep out\n########\n</banner></config>",
	)
	if err != nil {
		t.Logf("error is acceptable under the property: %v", err)

		return
	}

	if bytes.Contains(r.RawResult, []byte("<rpc ")) || !strings.Contains(r.Result, "<ok/>") {
		t.Fatalf("call 101 was not given the server's reply but (part of) its own request:\n"+
			"raw   : %q\nresult: %q\nfailed: %v", r.RawResult, r.Result, r.Failed)
	}
}
