package platform_test

// C19: an options block carried by a VARIANT of a platform definition is dropped.
// Platform.mergeVariant merges every section of the variant into the default platform except
// "options", so no option a variant names ever takes effect (and nothing is reported).

import (
	"testing"

	"github.com/scrapli/scrapligo/platform"
)

func TestHuntDefect3VariantOptionsDropped(t *testing.T) {
	def := []byte(`---
platform-type: 'hunt'
default:
  driver-type: 'generic'
  failed-when-contains:
    - 'default-fail'
variants:
  alt:
    failed-when-contains:
      - 'variant-fail'
    options:
      - option: port
        value: 2022
      - option: return-char
        value: "\r\n"
`)

	p, err := platform.NewPlatformVariant(def, "alt", "localhost")
	if err != nil {
		t.Fatalf("NewPlatformVariant: %v", err)
	}

	d, err := p.GetGenericDriver()
	if err != nil {
		t.Fatalf("GetGenericDriver: %v", err)
	}

	// sanity: the variant was merged at all
	if len(d.FailedWhenContains) != 1 || d.FailedWhenContains[0] != "variant-fail" {
		t.Fatalf("variant not merged: FailedWhenContains = %v", d.FailedWhenContains)
	}

	if d.Transport.Args.Port != 2022 {
		t.Errorf("variant option 'port: 2022' had no effect, port is %d", d.Transport.Args.Port)
	}

	if string(d.Channel.ReturnChar) != "\r\n" {
		t.Errorf(
			"variant option 'return-char: \"\\r\\n\"' had no effect, return char is %q",
			d.Channel.ReturnChar,
		)
	}
}
