package transport_test

// C14: "... with the configured key". A passphrase protected private key configured together
// with its passphrase - WithAuthPrivateKey(path, passphrase), "sets the SSH key path and
// passphrase to use for SSH key based auth" - is never used: the standard transport parses the
// key without the passphrase and Open fails ("this private key is passphrase protected") before
// a connection is attempted. (The system transport refuses the combination outright with
// errBadOption - on purpose, it says so in its log - so no SSH transport can use such a key; only
// the standard transport's behaviour is counted as the failure here.)

import (
	"bytes"
	"crypto/ed25519"
	"crypto/rand"
	"encoding/pem"
	"net"
	"os"
	"path/filepath"
	"strconv"
	"testing"
	"time"

	"github.com/scrapli/scrapligo/driver/generic"
	"github.com/scrapli/scrapligo/driver/options"
	"github.com/scrapli/scrapligo/transport"
	"golang.org/x/crypto/ssh"
)

func huntD8Server(t *testing.T, userKey ssh.PublicKey) (host string, port int) {
	t.Helper()

	_, priv, err := ed25519.GenerateKey(rand.Reader)
	if err != nil {
		t.Fatal(err)
	}

	signer, err := ssh.NewSignerFromKey(priv)
	if err != nil {
		t.Fatal(err)
	}

	cfg := &ssh.ServerConfig{
		PublicKeyCallback: func(_ ssh.ConnMetadata, k ssh.PublicKey) (*ssh.Permissions, error) {
			if bytes.Equal(k.Marshal(), userKey.Marshal()) {
				return nil, nil
			}

			return nil, ssh.ErrNoAuth
		},
	}
	cfg.AddHostKey(signer)

	l, err := net.Listen("tcp", "127.0.0.1:0")
	if err != nil {
		t.Fatal(err)
	}

	t.Cleanup(func() { _ = l.Close() })

	go func() {
		for {
			c, aerr := l.Accept()
			if aerr != nil {
				return
			}

			go func() {
				defer c.Close()

				sc, chans, reqs, herr := ssh.NewServerConn(c, cfg)
				if herr != nil {
					return
				}

				defer sc.Close()

				go ssh.DiscardRequests(reqs)

				for nc := range chans {
					ch, creqs, cerr := nc.Accept()
					if cerr != nil {
						return
					}

					go func() {
						for r := range creqs {
							if r.Type == "shell" {
								_, _ = ch.Write([]byte("\nrouter#"))
							}

							if r.WantReply {
								_ = r.Reply(true, nil)
							}
						}
					}()
				}
			}()
		}
	}()

	h, p, _ := net.SplitHostPort(l.Addr().String())
	port, _ = strconv.Atoi(p)

	return h, port
}

func TestHuntDefect8PassphraseProtectedKey(t *testing.T) {
	const passphrase = "open sesame"

	_, userPriv, err := ed25519.GenerateKey(rand.Reader)
	if err != nil {
		t.Fatal(err)
	}

	blk, err := ssh.MarshalPrivateKeyWithPassphrase(userPriv, "", []byte(passphrase))
	if err != nil {
		t.Fatal(err)
	}

	keyPath := filepath.Join(t.TempDir(), "id_ed25519")

	err = os.WriteFile(keyPath, pem.EncodeToMemory(blk), 0o600)
	if err != nil {
		t.Fatal(err)
	}

	userSigner, err := ssh.NewSignerFromKey(userPriv)
	if err != nil {
		t.Fatal(err)
	}

	host, port := huntD8Server(t, userSigner.PublicKey())

	for _, tr := range []string{transport.StandardTransport, transport.SystemTransport} {
		d, derr := generic.NewDriver(
			host,
			options.WithTransportType(tr),
			options.WithPort(port),
			options.WithAuthNoStrictKey(),
			options.WithAuthUsername("admin"),
			options.WithAuthPrivateKey(keyPath, passphrase),
			options.WithTimeoutSocket(5*time.Second),
			options.WithTimeoutOps(5*time.Second),
		)
		if derr != nil {
			t.Fatal(derr)
		}

		derr = d.Open()
		if derr != nil {
			if tr == transport.SystemTransport {
				// refused on purpose ("password protected key with system transport is not
				// supported"); recorded, not counted
				t.Logf("%s transport: key + passphrase configured: %v", tr, derr)

				continue
			}

			t.Errorf(
				"%s transport: key + passphrase configured, Open does not use them: %v", tr, derr,
			)

			continue
		}

		_ = d.Close()
	}
}
