package transport_test

// C14: "the password is offered to the server only through the authentication exchange, never on
// a command line".
//
// System transport, key AND password configured ({password, key, both} -> both). The server
// sends a pre-authentication banner (SSH_MSG_USERAUTH_BANNER, legal and common) whose last line
// ends in "password:", e.g. "Log in with your corporate username and password:". ssh prints the
// banner on the pty; the channel's in-channel authentication takes that line for ssh's password
// prompt and types the password into the pty. ssh never asks for a password (public key
// authentication succeeds), so the typed-ahead bytes are forwarded into the established session:
// the device's shell receives the clear-text password as a command line.
//
// The in-process server below waits half a second before it shows its prompt, so that the banner
// is always seen on its own (forces the schedule; devices are not faster than that anyway).

import (
	"bytes"
	"crypto/ed25519"
	"crypto/rand"
	"encoding/pem"
	"net"
	"os"
	"os/exec"
	"path/filepath"
	"strconv"
	"sync"
	"testing"
	"time"

	"github.com/scrapli/scrapligo/driver/generic"
	"github.com/scrapli/scrapligo/driver/options"
	"github.com/scrapli/scrapligo/transport"
	"golang.org/x/crypto/ssh"
)

const huntD6Password = "s3cretPW-hunt"

type huntD6Server struct {
	mu          sync.Mutex
	host        string
	port        int
	passwordsIn []string // passwords seen in the authentication exchange
	sessionIn   []byte   // bytes received inside the session (what the shell gets)
}

func huntD6NewServer(t *testing.T, banner string, userKey ssh.PublicKey) *huntD6Server {
	t.Helper()

	s := &huntD6Server{}

	_, priv, err := ed25519.GenerateKey(rand.Reader)
	if err != nil {
		t.Fatal(err)
	}

	signer, err := ssh.NewSignerFromKey(priv)
	if err != nil {
		t.Fatal(err)
	}

	cfg := &ssh.ServerConfig{
		BannerCallback: func(ssh.ConnMetadata) string { return banner },
		PasswordCallback: func(_ ssh.ConnMetadata, p []byte) (*ssh.Permissions, error) {
			s.mu.Lock()
			s.passwordsIn = append(s.passwordsIn, string(p))
			s.mu.Unlock()

			if string(p) == huntD6Password {
				return nil, nil
			}

			return nil, ssh.ErrNoAuth
		},
		PublicKeyCallback: func(_ ssh.ConnMetadata, k ssh.PublicKey) (*ssh.Permissions, error) {
			if bytes.Equal(k.Marshal(), userKey.Marshal()) {
				return nil, nil
			}

			return nil, ssh.ErrNoAuth
		},
	}
	cfg.AddHostKey(signer)

	l, err := net.Listen("tcp", "127.0.0.1:0")
	if err != nil {
		t.Fatal(err)
	}

	t.Cleanup(func() { _ = l.Close() })

	go func() {
		for {
			c, aerr := l.Accept()
			if aerr != nil {
				return
			}

			go s.serve(c, cfg)
		}
	}()

	h, p, _ := net.SplitHostPort(l.Addr().String())
	s.host = h
	s.port, _ = strconv.Atoi(p)

	return s
}

func (s *huntD6Server) serve(c net.Conn, cfg *ssh.ServerConfig) {
	defer c.Close()

	sc, chans, reqs, err := ssh.NewServerConn(c, cfg)
	if err != nil {
		return
	}

	defer sc.Close()

	go ssh.DiscardRequests(reqs)

	for nc := range chans {
		if nc.ChannelType() != "session" {
			_ = nc.Reject(ssh.UnknownChannelType, "no")

			continue
		}

		ch, creqs, aerr := nc.Accept()
		if aerr != nil {
			return
		}

		go func() {
			for r := range creqs {
				if r.Type == "shell" {
					go func() {
						time.Sleep(500 * time.Millisecond)

						_, _ = ch.Write([]byte("\r\nrouter#"))
					}()
				}

				if r.WantReply {
					_ = r.Reply(true, nil)
				}
			}
		}()

		go func() {
			b := make([]byte, 1024)

			for {
				n, rerr := ch.Read(b)
				if n > 0 {
					s.mu.Lock()
					s.sessionIn = append(s.sessionIn, b[:n]...)
					s.mu.Unlock()

					// a shell: echo, and a new prompt after every line
					_, _ = ch.Write(b[:n])

					if bytes.ContainsAny(b[:n], "\r\n") {
						_, _ = ch.Write([]byte("\r\nrouter#"))
					}
				}

				if rerr != nil {
					return
				}
			}
		}()
	}
}

func TestHuntDefect6PasswordTypedIntoSession(t *testing.T) {
	if _, err := exec.LookPath("ssh"); err != nil {
		t.Skip("no ssh binary, the system transport cannot be exercised")
	}

	dir := t.TempDir()

	_, userPriv, err := ed25519.GenerateKey(rand.Reader)
	if err != nil {
		t.Fatal(err)
	}

	blk, err := ssh.MarshalPrivateKey(userPriv, "")
	if err != nil {
		t.Fatal(err)
	}

	keyPath := filepath.Join(dir, "id_ed25519")

	err = os.WriteFile(keyPath, pem.EncodeToMemory(blk), 0o600)
	if err != nil {
		t.Fatal(err)
	}

	userSigner, err := ssh.NewSignerFromKey(userPriv)
	if err != nil {
		t.Fatal(err)
	}

	s := huntD6NewServer(
		t,
		"*** Authorized access only ***\nLog in with your corporate username and password:\n",
		userSigner.PublicKey(),
	)

	d, err := generic.NewDriver(
		s.host,
		options.WithTransportType(transport.SystemTransport),
		options.WithPort(s.port),
		options.WithAuthNoStrictKey(),
		options.WithAuthUsername("admin"),
		options.WithAuthPassword(huntD6Password),
		options.WithAuthPrivateKey(keyPath, ""),
		options.WithTimeoutSocket(5*time.Second),
		options.WithTimeoutOps(5*time.Second),
	)
	if err != nil {
		t.Fatal(err)
	}

	err = d.Open()
	if err != nil {
		t.Fatalf("open: %v", err)
	}

	_, err = d.GetPrompt()
	if err != nil {
		t.Logf("GetPrompt: %v", err)
	}

	// let the session drain
	time.Sleep(300 * time.Millisecond)

	_ = d.Close()

	s.mu.Lock()
	defer s.mu.Unlock()

	t.Logf("passwords seen in the authentication exchange: %q", s.passwordsIn)
	t.Logf("bytes received inside the session: %q", s.sessionIn)

	if bytes.Contains(s.sessionIn, []byte(huntD6Password)) {
		t.Errorf(
			"the clear-text password was typed into the established session (the device's "+
				"shell got it as a command line): %q", s.sessionIn,
		)
	}
}
