package transport_test

// C14: "The connection targets the configured host, port ..." - through the standard transport an
// IPv6 literal host is never reached: the dial address is built as host + ":" + port without
// brackets ("::1:2022"), which is not a valid address, so Open fails before anything is sent.
// The very same host string works through the system transport (ssh ::1 -p 2022), and the
// bracketed spelling "[::1]", which would make the standard transport work, breaks the system
// transport - so there is no spelling of an IPv6 host that both SSH transports accept.

import (
	"crypto/ed25519"
	"crypto/rand"
	"net"
	"strconv"
	"testing"
	"time"

	"github.com/scrapli/scrapligo/driver/generic"
	"github.com/scrapli/scrapligo/driver/options"
	"github.com/scrapli/scrapligo/transport"
	"golang.org/x/crypto/ssh"
)

func huntD7Server(t *testing.T) (port int, accepted chan struct{}) {
	t.Helper()

	_, priv, err := ed25519.GenerateKey(rand.Reader)
	if err != nil {
		t.Fatal(err)
	}

	signer, err := ssh.NewSignerFromKey(priv)
	if err != nil {
		t.Fatal(err)
	}

	cfg := &ssh.ServerConfig{
		PasswordCallback: func(_ ssh.ConnMetadata, p []byte) (*ssh.Permissions, error) {
			if string(p) == "pw" {
				return nil, nil
			}

			return nil, ssh.ErrNoAuth
		},
	}
	cfg.AddHostKey(signer)

	l, err := net.Listen("tcp6", "[::1]:0")
	if err != nil {
		t.Skipf("no IPv6 loopback here: %v", err)
	}

	t.Cleanup(func() { _ = l.Close() })

	accepted = make(chan struct{}, 16)

	go func() {
		for {
			c, aerr := l.Accept()
			if aerr != nil {
				return
			}

			accepted <- struct{}{}

			go func() {
				defer c.Close()

				sc, chans, reqs, herr := ssh.NewServerConn(c, cfg)
				if herr != nil {
					return
				}

				defer sc.Close()

				go ssh.DiscardRequests(reqs)

				for nc := range chans {
					ch, creqs, cerr := nc.Accept()
					if cerr != nil {
						return
					}

					go func() {
						for r := range creqs {
							if r.Type == "shell" {
								_, _ = ch.Write([]byte("\nrouter#"))
							}

							if r.WantReply {
								_ = r.Reply(true, nil)
							}
						}
					}()
				}
			}()
		}
	}()

	_, p, _ := net.SplitHostPort(l.Addr().String())
	port, _ = strconv.Atoi(p)

	return port, accepted
}

func TestHuntDefect7StandardTransportIPv6Host(t *testing.T) {
	port, accepted := huntD7Server(t)

	d, err := generic.NewDriver(
		"::1",
		options.WithTransportType(transport.StandardTransport),
		options.WithPort(port),
		options.WithAuthNoStrictKey(),
		options.WithAuthUsername("admin"),
		options.WithAuthPassword("pw"),
		options.WithTimeoutSocket(5*time.Second),
		options.WithTimeoutOps(5*time.Second),
	)
	if err != nil {
		t.Fatal(err)
	}

	err = d.Open()
	if err != nil {
		select {
		case <-accepted:
			t.Fatalf("open failed after reaching the server: %v", err)
		default:
		}

		t.Fatalf(
			"standard transport never connected to host '::1' port %d (server saw no "+
				"connection): %v", port, err,
		)
	}

	_ = d.Close()
}
