package netconf_test

// EXTRA, for information - outside the letter of C14/C19 (closest: C14's "ssh argument list").
//
// A NETCONF driver over the system transport cannot be opened a second time.
//  1. System.openNetconf appends "-s netconf" to the cached OpenArgs on EVERY Open, and the cached
//     list is only rebuilt when it is empty, so the second Open runs
//         ssh <host> ... -s netconf -s netconf
//     ssh takes everything after the first non-option word as the command and asks the server for
//     the subsystem "netconf -s netconf" (seen by the in-process server below), which no server
//     has, so the second Open fails.
//  2. That failing second Open then does not return its error: Channel.Open's clean-up calls
//     Channel.Close, which closes c.Errs - already closed by the first Close - and the process
//     dies with "panic: close of closed channel". (So on the unmodified library this test ends in
//     that panic rather than in its own assertion.)

import (
	"crypto/ed25519"
	"crypto/rand"
	"net"
	"os/exec"
	"strconv"
	"sync"
	"testing"
	"time"

	"github.com/scrapli/scrapligo/driver/netconf"
	"github.com/scrapli/scrapligo/driver/options"
	"github.com/scrapli/scrapligo/transport"
	"golang.org/x/crypto/ssh"
)

const huntX9Hello = `<?xml version="1.0" encoding="UTF-8"?>
<hello xmlns="urn:ietf:params:xml:ns:netconf:base:1.0">
<capabilities>
<capability>urn:ietf:params:netconf:base:1.0</capability>
</capabilities>
<session-id>4</session-id>
</hello>]]>]]>`

func TestHuntExtra9NetconfSystemReopenSubsystem(t *testing.T) {
	if _, err := exec.LookPath("ssh"); err != nil {
		t.Skip("no ssh binary, the system transport cannot be exercised")
	}

	_, priv, err := ed25519.GenerateKey(rand.Reader)
	if err != nil {
		t.Fatal(err)
	}

	signer, err := ssh.NewSignerFromKey(priv)
	if err != nil {
		t.Fatal(err)
	}

	var mu sync.Mutex

	var subsystems []string

	cfg := &ssh.ServerConfig{
		PasswordCallback: func(_ ssh.ConnMetadata, p []byte) (*ssh.Permissions, error) {
			if string(p) == "pw" {
				return nil, nil
			}

			return nil, ssh.ErrNoAuth
		},
	}
	cfg.AddHostKey(signer)

	l, err := net.Listen("tcp", "127.0.0.1:0")
	if err != nil {
		t.Fatal(err)
	}

	t.Cleanup(func() { _ = l.Close() })

	go func() {
		for {
			c, aerr := l.Accept()
			if aerr != nil {
				return
			}

			go func() {
				defer c.Close()

				sc, chans, reqs, herr := ssh.NewServerConn(c, cfg)
				if herr != nil {
					return
				}

				defer sc.Close()

				go ssh.DiscardRequests(reqs)

				for nc := range chans {
					ch, creqs, cerr := nc.Accept()
					if cerr != nil {
						return
					}

					go func() {
						for r := range creqs {
							ok := true

							if r.Type == "subsystem" {
								var req struct{ Name string }

								_ = ssh.Unmarshal(r.Payload, &req)

								mu.Lock()
								subsystems = append(subsystems, req.Name)
								mu.Unlock()

								ok = req.Name == "netconf"
								if ok {
									_, _ = ch.Write([]byte(huntX9Hello))
								}
							}

							if r.WantReply {
								_ = r.Reply(ok, nil)
							}

							if !ok {
								_ = ch.Close()
							}
						}
					}()
				}
			}()
		}
	}()

	host, p, _ := net.SplitHostPort(l.Addr().String())
	port, _ := strconv.Atoi(p)

	d, err := netconf.NewDriver(
		host,
		options.WithTransportType(transport.SystemTransport),
		options.WithPort(port),
		options.WithAuthNoStrictKey(),
		options.WithAuthUsername("admin"),
		options.WithAuthPassword("pw"),
		options.WithTimeoutSocket(5*time.Second),
		options.WithTimeoutOps(3*time.Second),
	)
	if err != nil {
		t.Fatal(err)
	}

	err = d.Open()
	if err != nil {
		t.Fatalf("first open: %v", err)
	}

	err = d.Close()
	if err != nil {
		t.Fatalf("first close: %v", err)
	}

	done := make(chan error, 1)

	go func() { done <- d.Open() }()

	var openErr error

	select {
	case openErr = <-done:
	case <-time.After(15 * time.Second):
		t.Fatalf("second open hung")
	}

	mu.Lock()
	defer mu.Unlock()

	t.Logf("subsystems requested from the server: %q, second open error: %v", subsystems, openErr)

	if len(subsystems) != 2 || subsystems[1] != "netconf" {
		t.Errorf("second Open asked the server for subsystem(s) %q, not \"netconf\"", subsystems[1:])
	}
}
