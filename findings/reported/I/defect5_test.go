package transport_test

// C19: WithStandardTransportExtraCiphers / WithStandardTransportExtraKexs do not take effect on
// the setting they name ("extends the list of ciphers / key exchange algorithms supported by the
// standard transport"): the extra names are appended to an EMPTY list in the crypto/ssh client
// config, which turns off the defaults, so the "extra" algorithms become the ONLY ones offered.
// A server that speaks only the ordinary default algorithms - reachable without the option - can
// no longer be reached once one extra (legacy) cipher or kex is added.

import (
	"crypto/ed25519"
	"crypto/rand"
	"net"
	"strconv"
	"testing"
	"time"

	"github.com/scrapli/scrapligo/driver/generic"
	"github.com/scrapli/scrapligo/driver/options"
	"github.com/scrapli/scrapligo/transport"
	"github.com/scrapli/scrapligo/util"
	"golang.org/x/crypto/ssh"
)

// huntD5Server is an in-process ssh server on loopback with a fresh host key and the default
// crypto/ssh algorithms; it accepts the password "pw" and gives every session a prompt.
func huntD5Server(t *testing.T) (host string, port int) {
	t.Helper()

	_, priv, err := ed25519.GenerateKey(rand.Reader)
	if err != nil {
		t.Fatal(err)
	}

	signer, err := ssh.NewSignerFromKey(priv)
	if err != nil {
		t.Fatal(err)
	}

	cfg := &ssh.ServerConfig{
		PasswordCallback: func(_ ssh.ConnMetadata, p []byte) (*ssh.Permissions, error) {
			if string(p) == "pw" {
				return nil, nil
			}

			return nil, ssh.ErrNoAuth
		},
	}
	cfg.AddHostKey(signer)

	l, err := net.Listen("tcp", "127.0.0.1:0")
	if err != nil {
		t.Fatal(err)
	}

	t.Cleanup(func() { _ = l.Close() })

	go func() {
		for {
			c, aerr := l.Accept()
			if aerr != nil {
				return
			}

			go func() {
				defer c.Close()

				sc, chans, reqs, herr := ssh.NewServerConn(c, cfg)
				if herr != nil {
					return
				}

				defer sc.Close()

				go ssh.DiscardRequests(reqs)

				for nc := range chans {
					if nc.ChannelType() != "session" {
						_ = nc.Reject(ssh.UnknownChannelType, "no")

						continue
					}

					ch, creqs, cerr := nc.Accept()
					if cerr != nil {
						return
					}

					go func() {
						for r := range creqs {
							if r.Type == "shell" {
								_, _ = ch.Write([]byte("\nrouter#"))
							}

							if r.WantReply {
								_ = r.Reply(true, nil)
							}
						}
					}()
				}
			}()
		}
	}()

	h, p, _ := net.SplitHostPort(l.Addr().String())
	port, _ = strconv.Atoi(p)

	return h, port
}

func huntD5Open(t *testing.T, host string, port int, extra ...util.Option) error {
	t.Helper()

	opts := []util.Option{
		options.WithTransportType(transport.StandardTransport),
		options.WithPort(port),
		options.WithAuthNoStrictKey(),
		options.WithAuthUsername("admin"),
		options.WithAuthPassword("pw"),
		options.WithTimeoutSocket(5 * time.Second),
		options.WithTimeoutOps(5 * time.Second),
	}
	opts = append(opts, extra...)

	d, err := generic.NewDriver(host, opts...)
	if err != nil {
		t.Fatalf("NewDriver: %v", err)
	}

	err = d.Open()
	if err == nil {
		_ = d.Close()
	}

	return err
}

func TestHuntDefect5ExtraCiphersReplaceDefaults(t *testing.T) {
	host, port := huntD5Server(t)

	// sanity: without the option the server is reachable
	if err := huntD5Open(t, host, port); err != nil {
		t.Fatalf("plain open failed: %v", err)
	}

	err := huntD5Open(
		t, host, port,
		options.WithStandardTransportExtraCiphers([]string{"aes128-cbc"}),
	)
	if err != nil {
		t.Errorf("one EXTRA cipher (aes128-cbc) made a default-cipher server unreachable: %v", err)
	}

	err = huntD5Open(
		t, host, port,
		options.WithStandardTransportExtraKexs([]string{"diffie-hellman-group1-sha1"}),
	)
	if err != nil {
		t.Errorf(
			"one EXTRA kex (diffie-hellman-group1-sha1) made a default-kex server unreachable: %v",
			err,
		)
	}
}
