package platform_test

// Defect 2 (property C17: "privilege levels ... and prompt patterns are consistent"; "against a
// device model built from the definition itself ... every level is reachable from every other";
// and C04: "acquiring a target level from any current level ends with the device at that level").
//
// In arista_eos, aruba_wlc and cisco_nxos the privilege-exec pattern also matches the prompt of a
// *different, distinguishable* level of the same definition (arista_eos / aruba_wlc: configuration,
// aruba_wlc: tclsh, cisco_nxos: tclsh) and carries no not-contains exclusion for it. When the
// driver has no cached level that says otherwise, AcquirePriv("privilege-exec") on a device that
// sits in that other level answers "nothing to do": it returns nil, caches privilege-exec, and the
// device is still in configuration / tclsh. Open() on a console session that was left in
// configuration mode therefore runs the on-open commands in configuration mode, and every
// following SendCommand is sent there too.
//
// drop into platform ; go test -vet=off -count=1 -run TestHuntC_D2 ./platform/

import (
	"regexp"
	"strings"
	"sync"
	"testing"
	"time"

	"github.com/scrapli/scrapligo/driver/network"
	"github.com/scrapli/scrapligo/driver/options"
	"github.com/scrapli/scrapligo/platform"
	"github.com/scrapli/scrapligo/transport"
)

// d2Device is a device model built from a definition's privilege levels: one mode per level, a
// level's escalate command typed in its parent enters it (after the secret when escalate-auth is
// set), a level's deescalate command typed in it goes to its parent; everything else is logged
// with the mode it arrived in.
type d2Device struct {
	mu      sync.Mutex
	levels  map[string]*network.PrivilegeLevel
	prompts map[string]string
	secret  string
	mode    string
	line    []byte
	out     []byte
	auth    string
	log     []string
}

func (s *d2Device) Open(_ *transport.Args) error {
	s.mu.Lock()
	defer s.mu.Unlock()
	s.out = append(s.out, "\n"+s.prompts[s.mode]...)

	return nil
}

func (s *d2Device) Close() error  { return nil }
func (s *d2Device) IsAlive() bool { return true }

func (s *d2Device) Read(_ int) ([]byte, error) {
	s.mu.Lock()
	defer s.mu.Unlock()

	b := s.out
	s.out = nil

	return b, nil
}

func (s *d2Device) Write(b []byte) error {
	s.mu.Lock()
	defer s.mu.Unlock()

	for _, c := range b {
		if c != '\n' {
			s.line = append(s.line, c)

			if s.auth == "" {
				s.out = append(s.out, c)
			}

			continue
		}

		line := string(s.line)
		s.line = nil
		s.handle(line)
	}

	return nil
}

func (s *d2Device) say(x string) { s.out = append(s.out, x...) }

func (s *d2Device) handle(line string) {
	if s.auth != "" {
		target := s.auth
		s.auth = ""

		if line == s.secret {
			s.mode = target
		}

		s.say("\n" + s.prompts[s.mode])

		return
	}

	if line == "" {
		s.say("\n" + s.prompts[s.mode])

		return
	}

	s.log = append(s.log, s.mode+"|"+line)

	cur := s.levels[s.mode]
	if cur.PreviousPriv != "" && line == cur.Deescalate {
		s.mode = cur.PreviousPriv
		s.say("\n" + s.prompts[s.mode])

		return
	}

	for name, l := range s.levels {
		if l.PreviousPriv == s.mode && l.Escalate != "" && l.Escalate == line {
			if l.EscalateAuth {
				s.auth = name
				s.say("\nPassword: ")
			} else {
				s.mode = name
				s.say("\n" + s.prompts[s.mode])
			}

			return
		}
	}

	s.say("\noutput of " + line + "\n" + s.prompts[s.mode])
}

func (s *d2Device) snapshot() (mode string, log []string) {
	s.mu.Lock()
	defer s.mu.Unlock()

	return s.mode, append([]string(nil), s.log...)
}

func TestHuntC_D2_PrivilegeExecPatternClaimsAnotherLevelsPrompt(t *testing.T) {
	cases := []struct {
		platform string
		prompts  map[string]string
		start    string // the level the (console) session was left in
	}{
		{
			platform: platform.AristaEos,
			prompts: map[string]string{
				"exec": "switch1>", "privilege-exec": "switch1#", "configuration": "switch1(config)#",
			},
			start: "configuration",
		},
		{
			platform: platform.ArubaWlc,
			prompts: map[string]string{
				"exec": "(wlc1) >", "privilege-exec": "(wlc1) #",
				"configuration": "(wlc1) (config)#", "tclsh": "wlc1(tcl)#",
			},
			start: "configuration",
		},
		{
			platform: platform.ArubaWlc,
			prompts: map[string]string{
				"exec": "(wlc1) >", "privilege-exec": "(wlc1) #",
				"configuration": "(wlc1) (config)#", "tclsh": "wlc1(tcl)#",
			},
			start: "tclsh",
		},
		{
			platform: platform.CiscoNxos,
			prompts: map[string]string{
				"exec": "nx1>", "privilege-exec": "nx1#", "configuration": "nx1(config)#",
				"tclsh": "nx1-tcl#",
			},
			start: "tclsh",
		},
		{
			// control: the same history on cisco_iosxe behaves as the properties say
			platform: platform.CiscoIosxe,
			prompts: map[string]string{
				"exec": "router1>", "privilege-exec": "router1#",
				"configuration": "router1(config)#", "tclsh": "router1(tcl)#",
			},
			start: "configuration",
		},
	}

	for _, tc := range cases {
		tc := tc

		t.Run(tc.platform+"_from_"+tc.start, func(t *testing.T) {
			dev := &d2Device{prompts: tc.prompts, secret: "s3cr3t", mode: tc.start}

			p, err := platform.NewPlatform(
				tc.platform,
				"sim",
				options.WithCustomTransport(dev),
				options.WithAuthSecondary("s3cr3t"),
				options.WithTimeoutOps(2*time.Second),
				options.WithReadDelay(50*time.Microsecond),
			)
			if err != nil {
				t.Fatal(err)
			}

			d, err := p.GetNetworkDriver()
			if err != nil {
				t.Fatal(err)
			}

			dev.levels = d.PrivilegeLevels

			// the model is faithful to the definition: each level's prompt matches its own pattern,
			// and the two levels involved are distinguishable (the start level's pattern does not
			// match the privilege-exec prompt).
			for name, l := range d.PrivilegeLevels {
				if !regexp.MustCompile(l.Pattern).MatchString(tc.prompts[name]) {
					t.Fatalf("model prompt %q does not match pattern of %s", tc.prompts[name], name)
				}
			}

			if regexp.MustCompile(d.PrivilegeLevels[tc.start].Pattern).
				MatchString(tc.prompts["privilege-exec"]) {
				t.Fatalf("levels are not distinguishable")
			}

			if err = d.Open(); err != nil {
				t.Fatalf("open: %v", err)
			}

			defer d.Close() //nolint:errcheck

			// on-open = acquire-priv (default desired = privilege-exec) + terminal settings: all
			// of the latter must arrive in privilege-exec.
			_, log := dev.snapshot()
			for _, e := range log {
				if strings.HasPrefix(e, tc.start+"|") &&
					e != tc.start+"|"+d.PrivilegeLevels[tc.start].Deescalate {
					t.Errorf("on-open step reached the device in the wrong level: %q", e)
				}
			}

			err = d.AcquirePriv("privilege-exec")
			mode, log := dev.snapshot()

			if err != nil {
				t.Fatalf("acquire privilege-exec: %v", err)
			}

			if mode != "privilege-exec" {
				t.Errorf("AcquirePriv(privilege-exec) returned nil but the device is in %q "+
					"(driver cache %q); device received %q", mode, d.CurrentPriv, log)
			}

			if _, err = d.SendCommand("show version"); err != nil {
				t.Fatal(err)
			}

			_, log = dev.snapshot()
			if last := log[len(log)-1]; last != "privilege-exec|show version" {
				t.Errorf("command executed as %q, want privilege-exec|show version", last)
			}
		})
	}
}
