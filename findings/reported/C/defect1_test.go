package network_test

// Defect 1 (property C04, last sentence): "Commands are always executed at the default desired
// level ... whatever level earlier operations left the device in."
//
// network.Driver.SendCommand / SendCommands only acquire the default desired level when the
// *cached* CurrentPriv differs from it; the cache is written when AcquirePriv confirms a level and
// is never invalidated by what is sent afterwards. Any earlier send-command or interactive
// operation that moves the device (and leaves the cache at the default level) makes every later
// command run at the wrong level, silently.
//
// drop into driver/network ; go test -vet=off -count=1 -run TestHuntC_D1 ./driver/network/

import (
	"strings"
	"sync"
	"testing"
	"time"

	"github.com/scrapli/scrapligo/channel"
	"github.com/scrapli/scrapligo/driver/network"
	"github.com/scrapli/scrapligo/driver/options"
	"github.com/scrapli/scrapligo/transport"
)

// d1Device is a device whose modes are exactly the given privilege tree: a level's escalate
// command typed in its parent enters it (after the secret when escalate-auth is set), a level's
// deescalate command typed in it goes to its parent, everything else is a command that is logged
// together with the mode it arrived in.
type d1Device struct {
	mu      sync.Mutex
	levels  map[string]*network.PrivilegeLevel
	prompts map[string]string
	secret  string
	mode    string
	line    []byte
	out     []byte
	auth    string
	log     []string
}

func (s *d1Device) Open(_ *transport.Args) error {
	s.mu.Lock()
	defer s.mu.Unlock()
	s.out = append(s.out, "\nwelcome\n"+s.prompts[s.mode]...)

	return nil
}

func (s *d1Device) Close() error  { return nil }
func (s *d1Device) IsAlive() bool { return true }

func (s *d1Device) Read(_ int) ([]byte, error) {
	s.mu.Lock()
	defer s.mu.Unlock()

	b := s.out
	s.out = nil

	return b, nil
}

func (s *d1Device) Write(b []byte) error {
	s.mu.Lock()
	defer s.mu.Unlock()

	for _, c := range b {
		if c != '\n' {
			s.line = append(s.line, c)

			if s.auth == "" {
				s.out = append(s.out, c) // echo
			}

			continue
		}

		line := string(s.line)
		s.line = nil
		s.handle(line)
	}

	return nil
}

func (s *d1Device) say(x string) { s.out = append(s.out, x...) }

func (s *d1Device) handle(line string) {
	if s.auth != "" {
		target := s.auth
		s.auth = ""

		if line == s.secret {
			s.mode = target
			s.say("\n" + s.prompts[s.mode])
		} else {
			s.say("\n% Access denied\n" + s.prompts[s.mode])
		}

		return
	}

	if line == "" {
		s.say("\n" + s.prompts[s.mode])

		return
	}

	s.log = append(s.log, s.mode+"|"+line)

	cur := s.levels[s.mode]
	if cur.PreviousPriv != "" && line == cur.Deescalate {
		s.mode = cur.PreviousPriv
		s.say("\n" + s.prompts[s.mode])

		return
	}

	for name, l := range s.levels {
		if l.PreviousPriv == s.mode && l.Escalate != "" && l.Escalate == line {
			if l.EscalateAuth {
				s.auth = name
				s.say("\nPassword: ")
			} else {
				s.mode = name
				s.say("\n" + s.prompts[s.mode])
			}

			return
		}
	}

	s.say("\noutput of " + line + "\n" + s.prompts[s.mode])
}

func (s *d1Device) current() string {
	s.mu.Lock()
	defer s.mu.Unlock()

	return s.mode
}

func (s *d1Device) where(cmd string) string {
	s.mu.Lock()
	defer s.mu.Unlock()

	at := ""

	for _, e := range s.log {
		if strings.HasSuffix(e, "|"+cmd) {
			at = strings.TrimSuffix(e, "|"+cmd)
		}
	}

	return at
}

func d1Levels() map[string]*network.PrivilegeLevel {
	return map[string]*network.PrivilegeLevel{
		"exec": {
			Name:    "exec",
			Pattern: `(?im)^[\w.\-@/:]{1,63}>$`,
		},
		"privilege-exec": {
			Name:           "privilege-exec",
			Pattern:        `(?im)^[\w.\-@/:]{1,63}#$`,
			PreviousPriv:   "exec",
			Deescalate:     "disable",
			Escalate:       "enable",
			EscalateAuth:   true,
			EscalatePrompt: `(?im)^(?:enable\s){0,1}password:\s?$`,
		},
		"configuration": {
			Name:         "configuration",
			Pattern:      `(?im)^[\w.\-@/:]{1,63}\([\w.\-@/:+]{0,32}\)#$`,
			NotContains:  []string{"tcl)"},
			PreviousPriv: "privilege-exec",
			Deescalate:   "end",
			Escalate:     "configure terminal",
		},
	}
}

func d1Driver(t *testing.T) (*network.Driver, *d1Device) {
	t.Helper()

	levels := d1Levels()

	dev := &d1Device{
		levels: levels,
		prompts: map[string]string{
			"exec": "router1>", "privilege-exec": "router1#", "configuration": "router1(config)#",
		},
		secret: "s3cr3t",
		mode:   "exec",
	}

	d, err := network.NewDriver(
		"sim",
		options.WithCustomTransport(dev),
		options.WithPrivilegeLevels(levels),
		options.WithDefaultDesiredPriv("privilege-exec"),
		options.WithAuthSecondary("s3cr3t"),
		options.WithTimeoutOps(2*time.Second),
		options.WithReadDelay(50*time.Microsecond),
	)
	if err != nil {
		t.Fatal(err)
	}

	if err = d.Open(); err != nil {
		t.Fatal(err)
	}

	t.Cleanup(func() { _ = d.Close() })

	// a first command: the driver acquires privilege-exec (enable + secret) - this part works
	if _, err = d.SendCommand("show clock"); err != nil {
		t.Fatal(err)
	}

	if at := dev.where("show clock"); at != "privilege-exec" {
		t.Fatalf("precondition: first command ran at %q", at)
	}

	return d, dev
}

func TestHuntC_D1_CommandAfterOperationThatMovedTheDevice(t *testing.T) {
	t.Run("send-command_up", func(t *testing.T) {
		d, dev := d1Driver(t)

		// an earlier send-command operation leaves the device in configuration mode
		if _, err := d.SendCommand("configure terminal"); err != nil {
			t.Fatal(err)
		}

		if _, err := d.SendCommand("show version"); err != nil {
			t.Fatal(err)
		}

		if at := dev.where("show version"); at != "privilege-exec" {
			t.Errorf("command 'show version' was executed at level %q, want the default desired "+
				"level 'privilege-exec' (driver cache says %q, device is in %q)",
				at, d.CurrentPriv, dev.current())
		}
	})

	t.Run("send-command_down", func(t *testing.T) {
		d, dev := d1Driver(t)

		// an earlier send-command operation drops the device to exec
		if _, err := d.SendCommand("disable"); err != nil {
			t.Fatal(err)
		}

		if _, err := d.SendCommands([]string{"show running-config"}); err != nil {
			t.Fatal(err)
		}

		if at := dev.where("show running-config"); at != "privilege-exec" {
			t.Errorf("command 'show running-config' was executed at level %q, want the default "+
				"desired level 'privilege-exec' (driver cache says %q)", at, d.CurrentPriv)
		}
	})

	t.Run("interactive", func(t *testing.T) {
		d, dev := d1Driver(t)

		// an earlier interactive operation (run at the default level) ends in configuration mode
		_, err := d.SendInteractive([]*channel.SendInteractiveEvent{
			{ChannelInput: "configure terminal", ChannelResponse: `\(config\)#`},
		})
		if err != nil {
			t.Fatal(err)
		}

		if _, err = d.SendCommand("show version"); err != nil {
			t.Fatal(err)
		}

		if at := dev.where("show version"); at != "privilege-exec" {
			t.Errorf("command 'show version' was executed at level %q, want the default desired "+
				"level 'privilege-exec' (driver cache says %q)", at, d.CurrentPriv)
		}
	})
}
