package platform_test

// Defect 3 (property C04, last sentence: "Commands are always executed at the default desired
// level and configuration lines at the configuration ... level, whatever level earlier operations
// left the device in"; property C17: a definition's prompt patterns are consistent).
//
// cisco_nxos: the configuration level's pattern accepts every "(config...)#" sub-mode prompt, but
// its not-contains list holds the bare string "config-s" (meant for "(config-s)#", the
// configure-session mode). That string is a prefix of ordinary configuration sub-modes, e.g. the
// sub-interface mode "(config-subif)#". Once a configuration line such as
// "interface Ethernet1/1.1" has been sent, the prompt is matched by the joined prompt pattern (so
// the line itself completes), but the level inference excludes configuration and no other level
// matches: every following SendCommand / SendConfigs / AcquirePriv fails with a privilege error
// ("could not determine privilege level from prompt") and the device stays in configuration mode.
//
// drop into platform ; go test -vet=off -count=1 -run TestHuntC_D3 ./platform/

import (
	"strings"
	"sync"
	"testing"
	"time"

	"github.com/scrapli/scrapligo/driver/network"
	"github.com/scrapli/scrapligo/driver/options"
	"github.com/scrapli/scrapligo/platform"
	"github.com/scrapli/scrapligo/transport"
)

// d3Device models an NX-OS device: exec / privilege-exec / configuration modes driven by the
// definition's own escalate / deescalate commands; inside configuration mode an "interface" line
// changes the prompt suffix the way NX-OS does ("(config-if)#" for a port, "(config-subif)#" for a
// sub-interface), "exit" goes back up one step and "end" leaves configuration mode.
type d3Device struct {
	mu     sync.Mutex
	levels map[string]*network.PrivilegeLevel
	secret string
	mode   string
	sub    string // "", "-if", "-subif"
	line   []byte
	out    []byte
	auth   string
	log    []string
}

func (s *d3Device) prompt() string {
	switch s.mode {
	case "exec":
		return "nx1>"
	case "privilege-exec":
		return "nx1#"
	case "tclsh":
		return "nx1-tcl#"
	default:
		return "nx1(config" + s.sub + ")#"
	}
}

func (s *d3Device) Open(_ *transport.Args) error {
	s.mu.Lock()
	defer s.mu.Unlock()
	s.out = append(s.out, "\n"+s.prompt()...)

	return nil
}

func (s *d3Device) Close() error  { return nil }
func (s *d3Device) IsAlive() bool { return true }

func (s *d3Device) Read(_ int) ([]byte, error) {
	s.mu.Lock()
	defer s.mu.Unlock()

	b := s.out
	s.out = nil

	return b, nil
}

func (s *d3Device) Write(b []byte) error {
	s.mu.Lock()
	defer s.mu.Unlock()

	for _, c := range b {
		if c != '\n' {
			s.line = append(s.line, c)

			if s.auth == "" {
				s.out = append(s.out, c)
			}

			continue
		}

		line := string(s.line)
		s.line = nil
		s.handle(line)
	}

	return nil
}

func (s *d3Device) say(x string) { s.out = append(s.out, x...) }

func (s *d3Device) handle(line string) {
	if s.auth != "" {
		target := s.auth
		s.auth = ""

		if line == s.secret {
			s.mode = target
		}

		s.say("\n" + s.prompt())

		return
	}

	if line == "" {
		s.say("\n" + s.prompt())

		return
	}

	s.log = append(s.log, s.mode+s.sub+"|"+line)

	if s.mode == "configuration" {
		switch {
		case strings.HasPrefix(line, "interface ") && strings.Contains(line, "."):
			s.sub = "-subif"
			s.say("\n" + s.prompt())

			return
		case strings.HasPrefix(line, "interface "):
			s.sub = "-if"
			s.say("\n" + s.prompt())

			return
		case line == "exit" && s.sub != "":
			s.sub = ""
			s.say("\n" + s.prompt())

			return
		}
	}

	cur := s.levels[s.mode]
	if cur.PreviousPriv != "" && line == cur.Deescalate {
		s.mode = cur.PreviousPriv
		s.sub = ""
		s.say("\n" + s.prompt())

		return
	}

	for name, l := range s.levels {
		if l.PreviousPriv == s.mode && s.sub == "" && l.Escalate != "" && l.Escalate == line {
			if l.EscalateAuth {
				s.auth = name
				s.say("\nPassword: ")
			} else {
				s.mode = name
				s.say("\n" + s.prompt())
			}

			return
		}
	}

	s.say("\n" + s.prompt())
}

func (s *d3Device) snapshot() (where, prompt string, log []string) {
	s.mu.Lock()
	defer s.mu.Unlock()

	return s.mode + s.sub, s.prompt(), append([]string(nil), s.log...)
}

func d3Run(t *testing.T, ifname string) {
	t.Helper()

	dev := &d3Device{secret: "s3cr3t", mode: "exec"}

	p, err := platform.NewPlatform(
		platform.CiscoNxos,
		"sim",
		options.WithCustomTransport(dev),
		options.WithAuthSecondary("s3cr3t"),
		options.WithTimeoutOps(2*time.Second),
		options.WithReadDelay(50*time.Microsecond),
	)
	if err != nil {
		t.Fatal(err)
	}

	d, err := p.GetNetworkDriver()
	if err != nil {
		t.Fatal(err)
	}

	dev.levels = d.PrivilegeLevels

	if err = d.Open(); err != nil {
		t.Fatalf("open: %v", err)
	}

	defer d.Close() //nolint:errcheck

	// configuration lines: enter the interface, describe it. this works.
	if _, err = d.SendConfigs([]string{"interface " + ifname, "description uplink"}); err != nil {
		t.Fatalf("send configs: %v", err)
	}

	// a command afterwards must be executed at privilege-exec
	_, err = d.SendCommand("show version")
	where, prompt, log := dev.snapshot()

	if err != nil {
		t.Errorf("SendCommand after the configuration lines failed: %v (device left in %q, "+
			"prompt %q, received %q)", err, where, prompt, log)
	} else if last := log[len(log)-1]; last != "privilege-exec|show version" {
		t.Errorf("command executed as %q", last)
	}

	// and more configuration lines must be accepted too
	if _, err = d.SendConfigs([]string{"interface " + ifname, "no shutdown"}); err != nil {
		t.Errorf("second SendConfigs failed: %v", err)
	}

	// and the level must be acquirable explicitly
	if err = d.AcquirePriv("privilege-exec"); err != nil {
		t.Errorf("AcquirePriv(privilege-exec) failed: %v", err)
	}
}

func TestHuntC_D3_NxosSubinterfacePromptHasNoLevel(t *testing.T) {
	// control: a port, prompt "nx1(config-if)#" - behaves as the property says
	t.Run("control_config-if", func(t *testing.T) { d3Run(t, "Ethernet1/1") })
	// a sub-interface, prompt "nx1(config-subif)#"
	t.Run("config-subif", func(t *testing.T) { d3Run(t, "Ethernet1/1.100") })
}
