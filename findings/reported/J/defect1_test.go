package transport_test

// C16 defect 1 -- system transport, NETCONF subsystem: the pty the ssh child runs on is left in
// the kernel's default ("cooked", canonical, echoing) line discipline. `ssh -s netconf` does not
// allocate a remote tty and therefore never switches its local tty to raw mode, so everything the
// library writes goes through the line discipline on its way to ssh:
//
//   - a written line longer than 4095 bytes is cut at 4095 bytes, the rest of the line is
//     silently discarded (N_TTY canonical mode limit) -- this includes the NETCONF end of message
//     marker that the library puts at the end of that same line;
//   - (same cause, read direction) every "\n" the peer sends is returned by Read as "\r\n" and
//     every byte the library wrote is returned by Read as well (tty echo) although the peer never
//     sent it.
//
// The tests use the real ssh binary (exactly like the existing TestSystemTransportDontBlockOnClose)
// against an in-process crypto/ssh server on the loopback interface.
//
// drop into: transport/      run: go test -vet=off -count=1 -run 'TestDefect1' ./transport/

import (
	"bytes"
	"crypto/ed25519"
	"crypto/rand"
	"fmt"
	"net"
	"os/exec"
	"regexp"
	"strings"
	"sync"
	"testing"
	"time"

	"golang.org/x/crypto/ssh"

	"github.com/scrapli/scrapligo/driver/netconf"
	"github.com/scrapli/scrapligo/driver/options"
	"github.com/scrapli/scrapligo/logging"
	"github.com/scrapli/scrapligo/transport"
)

type d1Server struct {
	port int

	mu  sync.Mutex
	got bytes.Buffer

	// the accepted session channel is handed out here once the subsystem was requested
	ch chan ssh.Channel
}

func (s *d1Server) received() []byte {
	s.mu.Lock()
	defer s.mu.Unlock()

	return append([]byte(nil), s.got.Bytes()...)
}

// d1StartServer starts a one-connection ssh server that accepts anybody, accepts every channel
// request (so: the netconf subsystem), records every byte it receives on the session channel and
// passes the received bytes to onData (may be nil).
func d1StartServer(t *testing.T, onData func(ch ssh.Channel, all []byte)) *d1Server {
	t.Helper()

	if _, err := exec.LookPath("ssh"); err != nil {
		t.Skip("no ssh binary, the system transport cannot run at all")
	}

	_, priv, err := ed25519.GenerateKey(rand.Reader)
	if err != nil {
		t.Fatal(err)
	}

	signer, err := ssh.NewSignerFromKey(priv)
	if err != nil {
		t.Fatal(err)
	}

	cfg := &ssh.ServerConfig{NoClientAuth: true}
	cfg.AddHostKey(signer)

	l, err := net.Listen("tcp", "127.0.0.1:0")
	if err != nil {
		t.Fatal(err)
	}

	t.Cleanup(func() { _ = l.Close() })

	s := &d1Server{port: l.Addr().(*net.TCPAddr).Port, ch: make(chan ssh.Channel, 1)}

	go func() {
		c, err := l.Accept()
		if err != nil {
			return
		}

		defer c.Close() //nolint:errcheck

		_, chans, reqs, err := ssh.NewServerConn(c, cfg)
		if err != nil {
			return
		}

		go ssh.DiscardRequests(reqs)

		nc, ok := <-chans
		if !ok {
			return
		}

		ch, creqs, err := nc.Accept()
		if err != nil {
			return
		}

		subsystem := make(chan struct{})

		go func() {
			for r := range creqs {
				if r.Type == "subsystem" {
					close(subsystem)
				}

				if r.WantReply {
					_ = r.Reply(true, nil)
				}
			}
		}()

		<-subsystem

		s.ch <- ch

		buf := make([]byte, 65536)

		for {
			n, err := ch.Read(buf)

			s.mu.Lock()
			s.got.Write(buf[:n])
			all := append([]byte(nil), s.got.Bytes()...)
			s.mu.Unlock()

			if onData != nil && n > 0 {
				onData(ch, all)
			}

			if err != nil {
				return
			}
		}
	}()

	return s
}

func d1OpenSystemNetconf(t *testing.T, port int) *transport.Transport {
	t.Helper()

	l, err := logging.NewInstance()
	if err != nil {
		t.Fatal(err)
	}

	tp, err := transport.NewTransport(
		l, "127.0.0.1", transport.SystemTransport,
		options.WithPort(port),
		options.WithAuthNoStrictKey(),
		options.WithAuthUsername("u"),
		// what netconf.NewDriver does to the transport (the option it uses is not exported)
		func(o interface{}) error {
			if a, ok := o.(*transport.SSHArgs); ok {
				a.NetconfConnection = true
			}

			return nil
		},
	)
	if err != nil {
		t.Fatal(err)
	}

	if err = tp.Open(); err != nil {
		t.Fatal(err)
	}

	t.Cleanup(func() { _ = tp.Close(true) })

	return tp
}

// clause: "every byte written is received by the peer unmodified and in order".
func TestDefect1_SystemNetconfWriteLongLine(t *testing.T) {
	s := d1StartServer(t, nil)
	tp := d1OpenSystemNetconf(t, s.port)

	// keep the pty drained (echo) like the channel read loop does
	go func() {
		for {
			if _, err := tp.Read(); err != nil {
				return
			}
		}
	}()

	select {
	case <-s.ch:
	case <-time.After(10 * time.Second):
		t.Fatal("ssh never got as far as requesting the netconf subsystem")
	}

	for _, size := range []int{100, 4000, 4095, 4096, 5000, 20000} {
		line := strings.Repeat("x", size-3) + "END"
		before := len(s.received())

		if err := tp.Write([]byte(line + "\n")); err != nil {
			t.Fatal(err)
		}

		var got []byte

		deadline := time.Now().Add(2 * time.Second)
		for time.Now().Before(deadline) {
			got = s.received()[before:]
			if bytes.HasSuffix(got, []byte("\n")) {
				break
			}

			time.Sleep(10 * time.Millisecond)
		}

		if string(got) != line+"\n" {
			t.Errorf(
				"wrote one line of %d bytes (+ newline); peer received %d bytes, ending in %q",
				size, len(got), tail(got, 12),
			)
		}
	}
}

// clause: "every byte the peer sends after the session is up is returned by reads exactly once
// and in order" (nothing else is).
func TestDefect1_SystemNetconfReadIsNotWhatThePeerSent(t *testing.T) {
	s := d1StartServer(t, nil)
	tp := d1OpenSystemNetconf(t, s.port)

	var (
		mu sync.Mutex
		rd []byte
	)

	go func() {
		for {
			b, err := tp.Read()
			if err != nil {
				return
			}

			mu.Lock()
			rd = append(rd, b...)
			mu.Unlock()
		}
	}()

	var ch ssh.Channel

	select {
	case ch = <-s.ch:
	case <-time.After(10 * time.Second):
		t.Fatal("ssh never got as far as requesting the netconf subsystem")
	}

	// whatever ssh itself printed while connecting is not the peer's, skip it
	time.Sleep(300 * time.Millisecond)
	mu.Lock()
	skip := len(rd)
	mu.Unlock()

	sent := "<hello>\n  <capabilities/>\n</hello>]]>]]>\n"

	if _, err := ch.Write([]byte(sent)); err != nil {
		t.Fatal(err)
	}

	time.Sleep(500 * time.Millisecond)

	mu.Lock()
	got := string(rd[skip:])
	mu.Unlock()

	if got != sent {
		t.Errorf("peer sent %q, reads returned %q", sent, got)
	}

	// and the other half: bytes the peer never sent
	mu.Lock()
	skip = len(rd)
	mu.Unlock()

	if err := tp.Write([]byte("<rpc/>]]>]]>\n")); err != nil {
		t.Fatal(err)
	}

	time.Sleep(500 * time.Millisecond)

	mu.Lock()
	got = string(rd[skip:])
	mu.Unlock()

	if got != "" {
		t.Errorf("peer sent nothing, reads returned %q", got)
	}
}

var d1MessageID = regexp.MustCompile(`message-id="(\d+)"`)

// clause: "a NETCONF session run end-to-end over each applicable transport gives the same results
// as over an ideal pipe" -- an edit-config whose (single line, as machine generated XML usually is)
// config is a few kB never reaches the server whole, the server never sees the end of the message,
// the RPC times out. The same RPC with a short config, and the same long config over the standard
// transport, are answered.
func TestDefect1_SystemNetconfEditConfigEndToEnd(t *testing.T) {
	const delim = "]]>]]>"

	hello := `<?xml version="1.0" encoding="UTF-8"?>` +
		`<hello xmlns="urn:ietf:params:xml:ns:netconf:base:1.0"><capabilities>` +
		`<capability>urn:ietf:params:netconf:base:1.0</capability>` +
		`</capabilities><session-id>7</session-id></hello>` + delim

	config := func(n int) string {
		var sb strings.Builder

		sb.WriteString("<config><interfaces>")

		for i := 0; sb.Len() < n; i++ {
			fmt.Fprintf(&sb, "<interface><name>eth%d</name><mtu>9000</mtu></interface>", i)
		}

		sb.WriteString("</interfaces></config>")

		return sb.String()
	}

	for _, tc := range []struct {
		transport string
		size      int
	}{
		{transport.StandardTransport, 6000},
		{transport.SystemTransport, 500},
		{transport.SystemTransport, 6000},
	} {
		name := fmt.Sprintf("%s-%d", tc.transport, tc.size)

		t.Run(name, func(t *testing.T) {
			answered := 0

			s := d1StartServer(t, func(ch ssh.Channel, all []byte) {
				// messages complete so far: [0] is the client hello, the others are rpcs
				msgs := strings.Split(string(all), delim)
				msgs = msgs[:len(msgs)-1]

				for len(msgs)-1 > answered {
					answered++

					m := d1MessageID.FindStringSubmatch(msgs[answered])
					if m == nil {
						continue
					}

					_, _ = ch.Write([]byte(
						`<rpc-reply xmlns="urn:ietf:params:xml:ns:netconf:base:1.0" message-id="` +
							m[1] + `"><ok/></rpc-reply>` + delim + "\n",
					))
				}
			})

			go func() {
				ch := <-s.ch
				_, _ = ch.Write([]byte(hello))
			}()

			d, err := netconf.NewDriver(
				"127.0.0.1",
				options.WithPort(s.port),
				options.WithTransportType(tc.transport),
				options.WithAuthNoStrictKey(),
				options.WithAuthUsername("u"),
				options.WithTimeoutOps(4*time.Second),
			)
			if err != nil {
				t.Fatal(err)
			}

			if err = d.Open(); err != nil {
				t.Fatalf("open: %s", err)
			}

			defer d.Close() //nolint:errcheck

			cfg := config(tc.size)

			r, err := d.EditConfig("running", cfg)
			if err != nil {
				got := s.received()

				t.Fatalf(
					"edit-config with a %d byte config: %s\nserver received %d bytes in all, "+
						"whole config received: %v, end of message received: %v",
					len(cfg), err, len(got),
					bytes.Contains(got, []byte(cfg)),
					bytes.Count(got, []byte(delim)) >= 2,
				)
			}

			if !strings.Contains(r.Result, "<ok/>") {
				t.Fatalf("unexpected reply %q", r.Result)
			}
		})
	}
}

func tail(b []byte, n int) []byte {
	if len(b) > n {
		return b[len(b)-n:]
	}

	return b
}
