package transport_test

// C16 defect 2 -- system transport, shell (CLI) session: the ssh child is started without
// `-e none` / `-o EscapeChar=none`, and because it runs on a pty with a remote tty requested, the
// OpenSSH client's escape character `~` is active. ssh looks at the first byte after every newline
// the library writes -- and the library ends every input with a newline, so the first byte of
// every command / config line is in that position:
//
//   - a line starting "~~"  loses one "~" on the way to the device,
//   - a line starting "~?", "~#", "~V", "~v", "~R", "~B", "~C", "~&", "~^Z" is swallowed and acted
//     on by the local ssh client (help text is injected into the read stream, rekey, BREAK, ...),
//   - a line starting "~."  makes ssh drop the connection.
//
// So bytes written are not received by the peer unmodified, bytes the peer never sent are returned
// by reads, and a CLI session gives different results than over the standard transport (an ideal
// pipe). Banner / description lines made of tildes are the usual real world carrier.
//
// The tests use the real ssh binary (exactly like the existing TestSystemTransportDontBlockOnClose)
// against an in-process crypto/ssh server on the loopback interface.
//
// drop into: transport/      run: go test -vet=off -count=1 -run 'TestDefect2' ./transport/

import (
	"bytes"
	"crypto/ed25519"
	"crypto/rand"
	"net"
	"os/exec"
	"strings"
	"sync"
	"testing"
	"time"

	"golang.org/x/crypto/ssh"

	"github.com/scrapli/scrapligo/driver/generic"
	"github.com/scrapli/scrapligo/driver/options"
	"github.com/scrapli/scrapligo/logging"
	"github.com/scrapli/scrapligo/transport"
)

type d2Server struct {
	port int

	mu     sync.Mutex
	got    bytes.Buffer
	closed bool
}

func (s *d2Server) received() string {
	s.mu.Lock()
	defer s.mu.Unlock()

	return s.got.String()
}

func (s *d2Server) isClosed() bool {
	s.mu.Lock()
	defer s.mu.Unlock()

	return s.closed
}

// d2StartServer is a one-connection "device": it accepts anybody, grants pty + shell, prints the
// prompt, and from then on echoes what it receives (like a device's tty does) and answers every
// line with "ok" and a fresh prompt. Everything received is recorded.
func d2StartServer(t *testing.T) *d2Server {
	t.Helper()

	if _, err := exec.LookPath("ssh"); err != nil {
		t.Skip("no ssh binary, the system transport cannot run at all")
	}

	_, priv, err := ed25519.GenerateKey(rand.Reader)
	if err != nil {
		t.Fatal(err)
	}

	signer, err := ssh.NewSignerFromKey(priv)
	if err != nil {
		t.Fatal(err)
	}

	cfg := &ssh.ServerConfig{NoClientAuth: true}
	cfg.AddHostKey(signer)

	l, err := net.Listen("tcp", "127.0.0.1:0")
	if err != nil {
		t.Fatal(err)
	}

	t.Cleanup(func() { _ = l.Close() })

	s := &d2Server{port: l.Addr().(*net.TCPAddr).Port}

	go func() {
		c, err := l.Accept()
		if err != nil {
			return
		}

		defer c.Close() //nolint:errcheck

		_, chans, reqs, err := ssh.NewServerConn(c, cfg)
		if err != nil {
			return
		}

		go ssh.DiscardRequests(reqs)

		nc, ok := <-chans
		if !ok {
			return
		}

		ch, creqs, err := nc.Accept()
		if err != nil {
			return
		}

		shell := make(chan struct{})

		go func() {
			for r := range creqs {
				if r.Type == "shell" {
					close(shell)
				}

				if r.WantReply {
					_ = r.Reply(true, nil)
				}
			}
		}()

		<-shell

		_, _ = ch.Write([]byte("router#"))

		buf := make([]byte, 65536)

		for {
			n, err := ch.Read(buf)

			s.mu.Lock()
			s.got.Write(buf[:n])
			s.mu.Unlock()

			for _, b := range buf[:n] {
				if b == '\n' {
					_, _ = ch.Write([]byte("\r\nok\r\nrouter#"))
				} else {
					_, _ = ch.Write([]byte{b})
				}
			}

			if err != nil {
				s.mu.Lock()
				s.closed = true
				s.mu.Unlock()

				return
			}
		}
	}()

	return s
}

type d2Reader struct {
	mu  sync.Mutex
	rd  []byte
	err error
}

func (r *d2Reader) run(tp *transport.Transport) {
	for {
		b, err := tp.Read()

		r.mu.Lock()
		r.rd = append(r.rd, b...)
		r.err = err
		r.mu.Unlock()

		if err != nil {
			return
		}
	}
}

func (r *d2Reader) snapshot() (string, error) {
	r.mu.Lock()
	defer r.mu.Unlock()

	return string(r.rd), r.err
}

func (r *d2Reader) waitFor(t *testing.T, sub string, n int) {
	t.Helper()

	deadline := time.Now().Add(10 * time.Second)

	for time.Now().Before(deadline) {
		s, err := r.snapshot()
		if strings.Count(s, sub) >= n {
			return
		}

		if err != nil {
			return
		}

		time.Sleep(10 * time.Millisecond)
	}

	s, _ := r.snapshot()
	t.Fatalf("never read %d x %q, read so far %q", n, sub, s)
}

func d2OpenSystemShell(t *testing.T, port int) (*transport.Transport, *d2Reader) {
	t.Helper()

	l, err := logging.NewInstance()
	if err != nil {
		t.Fatal(err)
	}

	tp, err := transport.NewTransport(
		l, "127.0.0.1", transport.SystemTransport,
		options.WithPort(port),
		options.WithAuthNoStrictKey(),
		options.WithAuthUsername("u"),
	)
	if err != nil {
		t.Fatal(err)
	}

	if err = tp.Open(); err != nil {
		t.Fatal(err)
	}

	t.Cleanup(func() { _ = tp.Close(true) })

	r := &d2Reader{}

	go r.run(tp)

	// the device's first prompt: the session is up (and ssh has its tty in raw mode)
	r.waitFor(t, "router#", 1)

	return tp, r
}

// clauses: "every byte written is received by the peer unmodified and in order" and "every byte
// the peer sends ... is returned by reads exactly once" (and nothing the peer did not send).
func TestDefect2_SystemShellWriteTildeLines(t *testing.T) {
	s := d2StartServer(t)
	tp, r := d2OpenSystemShell(t, s.port)

	lines := []string{
		"configure terminal\n",
		"banner motd ^\n",
		"~~~~~~~~ AUTHORIZED ACCESS ONLY ~~~~~~~~\n",
		"~?\n",
		"^\n",
		"end\n",
	}

	for i, l := range lines {
		if err := tp.Write([]byte(l)); err != nil {
			t.Fatal(err)
		}

		// one line at a time, like the channel does: wait for the device to have answered
		r.waitFor(t, "router#", i+2)
	}

	want := strings.Join(lines, "")

	if got := s.received(); got != want {
		t.Errorf("written : %q\nreceived: %q", want, got)
	}

	if rd, _ := r.snapshot(); strings.Contains(rd, "Supported escape sequences") {
		t.Errorf(
			"reads returned text that the peer never sent (the local ssh client's ~? help):\n%q",
			rd,
		)
	}
}

// the same clause, worst case: the line is not even delivered, the session is gone.
func TestDefect2_SystemShellWriteTildeDotKillsSession(t *testing.T) {
	s := d2StartServer(t)
	tp, r := d2OpenSystemShell(t, s.port)

	if err := tp.Write([]byte("show version\n")); err != nil {
		t.Fatal(err)
	}

	r.waitFor(t, "router#", 2)

	// say, a description / banner / comment line that starts with "~."
	if err := tp.Write([]byte("~.~.~.~.~.~.~.~.~.~.~.~.~\n")); err != nil {
		t.Fatal(err)
	}

	time.Sleep(time.Second)

	_, readErr := r.snapshot()

	if s.isClosed() || readErr != nil {
		t.Errorf(
			"writing a line starting with \"~.\" ended the session (server saw close: %v, "+
				"transport read error: %v); the peer received %q",
			s.isClosed(), readErr, s.received(),
		)
	}
}

// clause: "a CLI session ... run end-to-end over each applicable transport gives the same results
// as over an ideal pipe": the very same command works over the standard transport and times out
// over the system transport (the device echoes one tilde less than was sent, the channel never
// sees its input come back).
func TestDefect2_SystemShellSendCommandEndToEnd(t *testing.T) {
	for _, tt := range []string{transport.StandardTransport, transport.SystemTransport} {
		t.Run(tt, func(t *testing.T) {
			s := d2StartServer(t)

			d, err := generic.NewDriver(
				"127.0.0.1",
				options.WithPort(s.port),
				options.WithTransportType(tt),
				options.WithAuthNoStrictKey(),
				options.WithAuthUsername("u"),
				options.WithTimeoutOps(3*time.Second),
			)
			if err != nil {
				t.Fatal(err)
			}

			if err = d.Open(); err != nil {
				t.Fatalf("open: %s", err)
			}

			defer d.Close() //nolint:errcheck

			for _, cmd := range []string{
				"banner motd ^",
				"~~~~~~~~ AUTHORIZED ACCESS ONLY ~~~~~~~~",
			} {
				r, err := d.SendCommand(cmd)
				if err != nil {
					t.Fatalf("SendCommand(%q): %s\ndevice received %q", cmd, err, s.received())
				}

				if r.Result != "ok" {
					t.Fatalf("SendCommand(%q): result %q", cmd, r.Result)
				}
			}

			want := "banner motd ^\n~~~~~~~~ AUTHORIZED ACCESS ONLY ~~~~~~~~\n"
			if got := s.received(); got != want {
				t.Fatalf("sent %q, device received %q", want, got)
			}
		})
	}
}
