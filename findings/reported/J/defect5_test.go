package transport_test

// ADJACENT to C16 (the code is channel/channel.go:207, the clause is C16's "a read that is blocked
// when the transport is closed ... returns instead of blocking forever" as seen through a driver):
//
// When the channel read loop is blocked in a transport read (always the case for NETCONF, and for
// any idle CLI session), Channel.Close waits for the loop before it falls back to the forced
// transport close that unblocks the read. That wait is computed as
//
//     c.ReadDelay * (c.ReadDelay / 1000)          // time.Duration * time.Duration
//
// i.e. it grows with the square of the read delay: 62.5ms for the default 250us, but 1s for 1ms,
// 25s for 5ms (the value options.WithReadDelay documents as the default), 100s for 10ms, 2h47m for
// 100ms, 11.5 days for 1s. For all that time Close does not return, the transport is not closed and
// the blocked read stays blocked.
//
// drop into: transport/      run: go test -vet=off -count=1 -run 'TestDefect5' ./transport/

import (
	"net"
	"testing"
	"time"

	"github.com/scrapli/scrapligo/driver/generic"
	"github.com/scrapli/scrapligo/driver/options"
	"github.com/scrapli/scrapligo/transport"
)

func d5CloseTime(t *testing.T, readDelay time.Duration) (time.Duration, bool) {
	t.Helper()

	// a telnet peer that accepts and then stays silent: the read loop blocks in the transport
	l, err := net.Listen("tcp", "127.0.0.1:0")
	if err != nil {
		t.Fatal(err)
	}

	t.Cleanup(func() { _ = l.Close() })

	go func() {
		c, err := l.Accept()
		if err != nil {
			return
		}

		buf := make([]byte, 64)

		for {
			if _, err = c.Read(buf); err != nil {
				_ = c.Close()

				return
			}
		}
	}()

	d, err := generic.NewDriver(
		"127.0.0.1",
		options.WithPort(l.Addr().(*net.TCPAddr).Port),
		options.WithTransportType(transport.TelnetTransport),
		options.WithTimeoutSocket(200*time.Millisecond),
		options.WithAuthBypass(),
		options.WithReadDelay(readDelay),
	)
	if err != nil {
		t.Fatal(err)
	}

	if err = d.Open(); err != nil {
		t.Fatal(err)
	}

	// let the read loop get into its blocking read
	time.Sleep(100 * time.Millisecond)

	done := make(chan struct{})
	start := time.Now()

	go func() {
		defer close(done)

		_ = d.Close()
	}()

	select {
	case <-done:
		return time.Since(start), true
	case <-time.After(3 * time.Second):
		return time.Since(start), false
	}
}

func TestDefect5_CloseWithBlockedReadDefaultReadDelay(t *testing.T) {
	// control
	if took, ok := d5CloseTime(t, 250*time.Microsecond); !ok {
		t.Errorf("Close had not returned after %s", took)
	}
}

func TestDefect5_CloseWithBlockedRead5msReadDelay(t *testing.T) {
	if took, ok := d5CloseTime(t, 5*time.Millisecond); !ok {
		t.Errorf("read delay 5ms: Close had not returned after %s, the read is still blocked", took)
	}
}
