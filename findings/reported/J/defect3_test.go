package transport_test

// C15 defect 3 -- telnet: option negotiation is only parsed inside a time box at Open (socket
// timeout / 4 for the first byte, socket timeout / 2 between bytes). When the time box ends the
// parser simply returns: a partially parsed IAC sequence is forgotten, and whatever is read from
// then on is handed to the reader raw. So
//
//   (a) for a TCP segmentation of the opening that cuts an option request in two with a pause
//       longer than the time box between the two segments, the rest of the request (verb and/or
//       option code) is delivered to the reader as data and the request is never answered;
//   (b) for socket timeout 0 (which for the other two transports, and for the channel's timeouts,
//       means "no timeout") the time box is empty: nothing at all is negotiated, every
//       negotiation byte is delivered to the reader, nothing is answered.
//
// Both are inside the property's quantifier ("forall TCP segmentations of that opening, forall
// socket timeouts that bound the negotiation phase").
//
// drop into: transport/      run: go test -vet=off -count=1 -run 'TestDefect3' ./transport/

import (
	"bytes"
	"net"
	"testing"
	"time"

	"github.com/scrapli/scrapligo/driver/options"
	"github.com/scrapli/scrapligo/logging"
	"github.com/scrapli/scrapligo/transport"
)

const (
	d3IAC  = byte(255)
	d3DONT = byte(254)
	d3DO   = byte(253)
	d3WONT = byte(252)
	d3WILL = byte(251)
	d3SGA  = byte(3)
	d3ECHO = byte(1)
)

// d3Run plays a telnet server that sends the given segments (pausing `gap` between them) as soon
// as the client connects, opens a telnet transport to it with the given socket timeout, reads what
// the transport delivers until all expected data is in (or nothing more comes), and returns what
// the server got back from the client and what the reader was given.
func d3Run(
	t *testing.T,
	socketTimeout time.Duration,
	gap time.Duration,
	segments ...[]byte,
) (replies, delivered []byte) {
	t.Helper()

	l, err := net.Listen("tcp", "127.0.0.1:0")
	if err != nil {
		t.Fatal(err)
	}

	defer l.Close() //nolint:errcheck

	repliesCh := make(chan []byte, 1)
	clientDone := make(chan struct{})

	go func() {
		c, err := l.Accept()
		if err != nil {
			repliesCh <- nil

			return
		}

		defer c.Close() //nolint:errcheck

		go func() {
			for i, s := range segments {
				if i > 0 {
					time.Sleep(gap)
				}

				_, _ = c.Write(s)
			}
		}()

		var got []byte

		collected := make(chan struct{})

		go func() {
			defer close(collected)

			buf := make([]byte, 256)

			for {
				n, err := c.Read(buf)
				got = append(got, buf[:n]...)

				if err != nil {
					return
				}
			}
		}()

		// the client side of the test says when it has seen everything it is going to see; give
		// its replies (if any are still in flight) a moment, then stop collecting
		<-clientDone
		_ = c.SetReadDeadline(time.Now().Add(200 * time.Millisecond))
		<-collected

		repliesCh <- got
	}()

	lg, err := logging.NewInstance()
	if err != nil {
		t.Fatal(err)
	}

	tp, err := transport.NewTransport(
		lg, "127.0.0.1", transport.TelnetTransport,
		options.WithPort(l.Addr().(*net.TCPAddr).Port),
		options.WithTimeoutSocket(socketTimeout),
	)
	if err != nil {
		t.Fatal(err)
	}

	if err = tp.Open(); err != nil {
		t.Fatalf("open: %s", err)
	}

	// read for as long as the server is still going to send, plus a margin
	stop := time.AfterFunc(time.Duration(len(segments))*gap+700*time.Millisecond, func() {
		_ = tp.Close(true)
	})
	defer stop.Stop()

	for {
		b, err := tp.Read()
		delivered = append(delivered, b...)

		if err != nil {
			break
		}
	}

	close(clientDone)

	return <-repliesCh, delivered
}

// control: the opening in one piece is handled as the property says.
func TestDefect3_Control(t *testing.T) {
	replies, delivered := d3Run(
		t, 400*time.Millisecond, 0,
		append([]byte{d3IAC, d3DO, d3ECHO, d3IAC, d3DO, d3SGA, d3IAC, d3WILL, d3ECHO}, "login: "...),
	)

	wantReplies := []byte{d3IAC, d3WONT, d3ECHO, d3IAC, d3WILL, d3SGA, d3IAC, d3DO, d3ECHO}

	if !bytes.Equal(replies, wantReplies) {
		t.Errorf("server got % d, want % d", replies, wantReplies)
	}

	if string(delivered) != "login: " {
		t.Errorf("reader got %q, want %q", delivered, "login: ")
	}
}

// (a) the same kind of opening, but the second option request arrives in two TCP segments with a
// pause (1s) longer than the negotiation time box (socket timeout 400ms: 100ms, then 200ms).
func TestDefect3_RequestSplitAcrossTheTimeBox(t *testing.T) {
	for _, tc := range []struct {
		name     string
		segments [][]byte
	}{
		{
			"IAC DO | ECHO",
			[][]byte{
				{d3IAC, d3DO, d3SGA, d3IAC, d3DO},
				append([]byte{d3ECHO}, "login: "...),
			},
		},
		{
			"IAC | WILL ECHO",
			[][]byte{
				{d3IAC, d3DO, d3SGA, d3IAC},
				append([]byte{d3WILL, d3ECHO}, "login: "...),
			},
		},
	} {
		t.Run(tc.name, func(t *testing.T) {
			replies, delivered := d3Run(t, 400*time.Millisecond, time.Second, tc.segments...)

			if string(delivered) != "login: " {
				t.Errorf("negotiation bytes delivered to the reader: got %q, want %q",
					delivered, "login: ")
			}

			// the first request (DO SGA) plus the split one
			if len(replies) != 6 {
				t.Errorf("two option requests were sent, server got these answers: % d", replies)
			}
		})
	}
}

// (b) socket timeout 0.
func TestDefect3_SocketTimeoutZero(t *testing.T) {
	replies, delivered := d3Run(
		t, 0, 0,
		append([]byte{d3IAC, d3DO, d3SGA, d3IAC, d3WILL, d3ECHO}, "login: "...),
	)

	if string(delivered) != "login: " {
		t.Errorf("negotiation bytes delivered to the reader: got %q, want %q",
			delivered, "login: ")
	}

	wantReplies := []byte{d3IAC, d3WILL, d3SGA, d3IAC, d3DO, d3ECHO}

	if !bytes.Equal(replies, wantReplies) {
		t.Errorf("server got % d, want % d", replies, wantReplies)
	}
}

var _ = d3DONT
