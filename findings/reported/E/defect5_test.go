package generic_test

// C07 defect 5: with the reader blocked in a transport read (the normal state of an idle ssh /
// netconf session) Close only returns after the grace period, and the grace period is
// ReadDelay*(ReadDelay/1000) taken as a time.Duration, i.e. it grows with the SQUARE of the read
// delay:   250us -> 62.5ms,  5ms (the default the WithReadDelay doc comment names) -> 25s,
// 100ms -> 2h46m,  1s -> 11.5 days,  >= 96.1s -> int64 overflow.
// "forall read-delay settings that make the ... forced path be taken": for a read delay of 100ms
// Close of an idle session does not come back for hours.
//
// drop into driver/generic ; go test -vet=off -count=1 -run TestHuntE5 ./driver/generic/

import (
	"io"
	"runtime"
	"sync"
	"testing"
	"time"

	"github.com/scrapli/scrapligo/driver/generic"
	"github.com/scrapli/scrapligo/driver/options"
	"github.com/scrapli/scrapligo/transport"
)

// huntE5Transport behaves like an idle socket: Read blocks until Close, then reports io.EOF.
type huntE5Transport struct {
	closed    chan struct{}
	closeOnce sync.Once
}

func (t *huntE5Transport) Open(_ *transport.Args) error { return nil }

func (t *huntE5Transport) Close() error {
	t.closeOnce.Do(func() { close(t.closed) })

	return nil
}

func (t *huntE5Transport) IsAlive() bool { return true }

func (t *huntE5Transport) Read(_ int) ([]byte, error) {
	<-t.closed

	return nil, io.EOF
}

func (t *huntE5Transport) Write(_ []byte) error { return nil }

func huntE5CloseTakes(t *testing.T, readDelay, limit time.Duration) {
	t.Helper()

	tr := &huntE5Transport{closed: make(chan struct{})}

	d, err := generic.NewDriver(
		"localhost",
		options.WithCustomTransport(tr),
		options.WithReadDelay(readDelay),
	)
	if err != nil {
		t.Fatal(err)
	}

	if err = d.Open(); err != nil {
		t.Fatalf("open failed: %v", err)
	}

	time.Sleep(20 * time.Millisecond) // reader is now parked in the transport read

	start := time.Now()
	closed := make(chan error, 1)

	go func() { closed <- d.Close() }()

	select {
	case err = <-closed:
		t.Logf("read delay %s: Close returned after %s (err=%v)", readDelay, time.Since(start), err)
	case <-time.After(limit):
		buf := make([]byte, 1<<20)
		n := runtime.Stack(buf, true)

		// unblock everything so the test binary can wind down
		_ = tr.Close()

		t.Fatalf(
			"C07 violated: read delay %s, idle session, Close still not back after %s "+
				"(= %d read delays); it is sitting in its grace period of ReadDelay*(ReadDelay/1000) = %s\n%s",
			readDelay, limit, limit/readDelay,
			readDelay*(readDelay/1000), //nolint:durationcheck
			buf[:n],
		)
	}
}

// control (passes): the default read delay gives a 62.5ms grace period.
func TestHuntE5ControlDefaultReadDelay(t *testing.T) {
	huntE5CloseTakes(t, 250*time.Microsecond, 3*time.Second)
}

func TestHuntE5CloseGraceIsQuadraticInReadDelay(t *testing.T) {
	huntE5CloseTakes(t, 100*time.Millisecond, 3*time.Second)
}
