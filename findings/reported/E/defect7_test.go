package generic_test

// C07 defect 7: "The transport is closed" does not hold for the standard (crypto/ssh) transport in
// the state "after the peer closed the stream". When the device has closed the ssh session channel
// first (which is what happens after the "exit" that the network drivers' on-close writes, or when
// the device logs the user out), ssh.Session.Close reports io.EOF ("close already sent");
// Standard.Close returns that error at once and never reaches t.client.Close(): the TCP
// connection and the ssh client's goroutines stay up, and Driver.Close reports "EOF".
//
// The peer is an in-process crypto/ssh server on the loopback interface (golang.org/x/crypto is a
// direct requirement of the library's go.mod; nothing else is needed).
//
// drop into driver/generic ; go test -vet=off -count=1 -run TestHuntE7 ./driver/generic/

import (
	"crypto/ed25519"
	"crypto/rand"
	"errors"
	"net"
	"testing"
	"time"

	"golang.org/x/crypto/ssh"

	"github.com/scrapli/scrapligo/driver/generic"
	"github.com/scrapli/scrapligo/driver/options"
	"github.com/scrapli/scrapligo/transport"
	"github.com/scrapli/scrapligo/util"
)

type huntE7Server struct {
	port         int
	closeSession chan struct{} // test -> server: close the session channel (keep the connection)
	disconnected chan struct{} // server -> test: the client closed the ssh connection
	failed       chan error
}

func huntE7StartServer(t *testing.T) *huntE7Server {
	t.Helper()

	_, priv, err := ed25519.GenerateKey(rand.Reader)
	if err != nil {
		t.Fatal(err)
	}

	signer, err := ssh.NewSignerFromKey(priv)
	if err != nil {
		t.Fatal(err)
	}

	cfg := &ssh.ServerConfig{NoClientAuth: true}
	cfg.AddHostKey(signer)

	ln, err := net.Listen("tcp", "127.0.0.1:0")
	if err != nil {
		t.Skipf("no loopback networking: %v", err)
	}

	s := &huntE7Server{
		port:         ln.Addr().(*net.TCPAddr).Port,
		closeSession: make(chan struct{}),
		disconnected: make(chan struct{}),
		failed:       make(chan error, 1),
	}

	go func() {
		defer ln.Close()

		nc, aerr := ln.Accept()
		if aerr != nil {
			s.failed <- aerr

			return
		}

		sconn, chans, reqs, herr := ssh.NewServerConn(nc, cfg)
		if herr != nil {
			s.failed <- herr

			return
		}

		go ssh.DiscardRequests(reqs)

		go func() {
			for nch := range chans {
				ch, chReqs, cerr := nch.Accept()
				if cerr != nil {
					continue
				}

				go func() {
					for r := range chReqs {
						_ = r.Reply(true, nil) // pty-req, shell
					}
				}()

				go func() {
					_, _ = ch.Write([]byte("\nrouter#"))

					<-s.closeSession

					// the device ends the session (as after "exit"), the connection stays.
					_ = ch.Close()
				}()
			}
		}()

		_ = sconn.Wait()

		close(s.disconnected)
	}()

	return s
}

func huntE7Run(t *testing.T, peerClosesSessionFirst bool) {
	t.Helper()

	s := huntE7StartServer(t)

	d, err := generic.NewDriver(
		"127.0.0.1",
		options.WithPort(s.port),
		options.WithTransportType(transport.StandardTransport),
		options.WithAuthNoStrictKey(),
		options.WithAuthUsername("admin"),
	)
	if err != nil {
		t.Fatal(err)
	}

	if err = d.Open(); err != nil {
		select {
		case serr := <-s.failed:
			t.Fatalf("open failed: %v (server: %v)", err, serr)
		default:
			t.Fatalf("open failed: %v", err)
		}
	}

	if _, err = d.GetPrompt(); err != nil {
		t.Fatalf("session not usable: %v", err)
	}

	if peerClosesSessionFirst {
		close(s.closeSession)

		// wait until the library has noticed the end of the stream (its read loop ended on EOF)
		deadline := time.Now().Add(3 * time.Second)
		for {
			if _, rerr := d.Channel.Read(); errors.Is(rerr, util.ErrConnectionError) {
				break
			}

			if time.Now().After(deadline) {
				t.Fatal("test setup: read loop never saw the end of the stream")
			}

			time.Sleep(5 * time.Millisecond)
		}
	}

	closeErr := d.Close()

	select {
	case <-s.disconnected:
		t.Logf("transport closed, Close returned %v", closeErr)
	case <-time.After(2 * time.Second):
		t.Fatalf(
			"C07 violated: Close returned (%v) but the transport is not closed: 2s later the ssh "+
				"server still has the client's connection (Standard.Close gave up after "+
				"session.Close and never closed the ssh client)", closeErr,
		)
	}
}

// control (passes): idle session, the client closes first.
func TestHuntE7ControlClientClosesFirst(t *testing.T) {
	huntE7Run(t, false)
}

func TestHuntE7StandardTransportLeftOpenAfterPeerClosedSession(t *testing.T) {
	huntE7Run(t, true)
}
