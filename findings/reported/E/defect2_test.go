package netconf_test

// C07 defect 2: a second netconf Driver.Close never returns. (Distinct from the known
// "second Close panics with close of closed channel" of channel.Channel: the NETCONF driver never
// gets that far, it deadlocks on its own unbuffered done channel because its read loop is gone.)
//
// drop into driver/netconf ; go test -vet=off -count=1 -run TestHuntE2 ./driver/netconf/

import (
	"io"
	"runtime"
	"sync"
	"testing"
	"time"

	"github.com/scrapli/scrapligo/driver/netconf"
	"github.com/scrapli/scrapligo/driver/options"
	"github.com/scrapli/scrapligo/transport"
)

// huntE2Transport: Read blocks until fed or closed (then io.EOF).
type huntE2Transport struct {
	in        chan []byte
	closed    chan struct{}
	closeOnce sync.Once
}

func (t *huntE2Transport) Open(_ *transport.Args) error { return nil }

func (t *huntE2Transport) Close() error {
	t.closeOnce.Do(func() { close(t.closed) })

	return nil
}

func (t *huntE2Transport) IsAlive() bool { return true }

func (t *huntE2Transport) Read(_ int) ([]byte, error) {
	select {
	case b := <-t.in:
		return b, nil
	case <-t.closed:
		return nil, io.EOF
	}
}

func (t *huntE2Transport) Write(_ []byte) error { return nil }

const huntE2Hello = `<?xml version="1.0" encoding="UTF-8"?>
<hello xmlns="urn:ietf:params:xml:ns:netconf:base:1.0">
<capabilities>
<capability>urn:ietf:params:netconf:base:1.0</capability>
</capabilities>
<session-id>7</session-id>
</hello>]]>]]>`

func TestHuntE2NetconfSecondClose(t *testing.T) {
	tr := &huntE2Transport{in: make(chan []byte, 4), closed: make(chan struct{})}

	d, err := netconf.NewDriver("localhost", options.WithCustomTransport(tr))
	if err != nil {
		t.Fatal(err)
	}

	tr.in <- []byte(huntE2Hello)

	if err = d.Open(); err != nil {
		t.Fatalf("open failed: %v", err)
	}

	if err = d.Close(); err != nil {
		t.Fatalf("first close failed: %v", err)
	}

	done := make(chan struct{})

	go func() {
		defer close(done)
		defer func() { _ = recover() }() // the known channel-level double close panic is not the point here

		_ = d.Close()
	}()

	select {
	case <-done:
	case <-time.After(3 * time.Second):
		buf := make([]byte, 1<<20)
		n := runtime.Stack(buf, true)

		t.Fatalf(
			"C07 violated: the second netconf Driver.Close did not return within 3s "+
				"(blocked sending on d.done, nobody is left to receive)\n%s", buf[:n],
		)
	}
}
