package generic_test

// C07 defect 4: unsynchronised access to shared connection state during the session: the channel's
// readLoopExited flag is a plain bool, written by the read loop when it ends (peer closed the
// stream) and read, with no synchronisation in between, by every Channel.Read of an in-flight
// operation (and by Close).
//
// The observation point named by the property is the race detector, so this one needs -race:
// drop into driver/generic ; go test -race -vet=off -count=1 -run TestHuntE4 ./driver/generic/
// (without -race the test passes; with it the run fails with "WARNING: DATA RACE ... race detected
// during execution of test")

import (
	"errors"
	"io"
	"sync"
	"testing"
	"time"

	"github.com/scrapli/scrapligo/driver/generic"
	"github.com/scrapli/scrapligo/driver/options"
	"github.com/scrapli/scrapligo/transport"
	"github.com/scrapli/scrapligo/util"
)

type huntE4Transport struct {
	in        chan []byte
	peerClose chan struct{}
	closed    chan struct{}
	closeOnce sync.Once
	wrote     chan struct{}
	wroteOnce sync.Once
}

func (t *huntE4Transport) Open(_ *transport.Args) error { return nil }

func (t *huntE4Transport) Close() error {
	t.closeOnce.Do(func() { close(t.closed) })

	return nil
}

func (t *huntE4Transport) IsAlive() bool { return true }

func (t *huntE4Transport) Read(_ int) ([]byte, error) {
	select {
	case b := <-t.in:
		return b, nil
	case <-t.peerClose:
		return nil, io.EOF
	case <-t.closed:
		return nil, io.EOF
	}
}

func (t *huntE4Transport) Write(_ []byte) error {
	t.wroteOnce.Do(func() { close(t.wrote) })

	return nil
}

func TestHuntE4ReadLoopExitedFlagRace(t *testing.T) {
	tr := &huntE4Transport{
		in:        make(chan []byte, 4),
		peerClose: make(chan struct{}),
		closed:    make(chan struct{}),
		wrote:     make(chan struct{}),
	}

	d, err := generic.NewDriver(
		"localhost",
		options.WithCustomTransport(tr),
		options.WithTimeoutOps(5*time.Second),
	)
	if err != nil {
		t.Fatal(err)
	}

	if err = d.Open(); err != nil {
		t.Fatalf("open failed: %v", err)
	}

	res := make(chan error, 1)

	// an operation is in flight, polling the channel ...
	go func() {
		_, opErr := d.Channel.SendInput("show version")
		res <- opErr
	}()

	<-tr.wrote
	time.Sleep(20 * time.Millisecond)

	// ... when the device drops the connection.
	close(tr.peerClose)

	select {
	case err = <-res:
		if !errors.Is(err, util.ErrConnectionError) {
			t.Fatalf("unexpected operation result: %v", err)
		}
	case <-time.After(10 * time.Second):
		t.Fatal("operation did not return")
	}

	_ = d.Close()
}
