package generic_test

// C07 defect 3: Close concurrent with the arrival of EOF leaks a library goroutine for ever.
//
// Channel.Close reads the plain bool readLoopExited, finds it false and starts a goroutine that
// sends on the unbuffered done channel. If the read loop has, at that moment, already passed its
// "done?" check with an EOF in hand, it returns through the EOF branch without ever receiving from
// done: the sender goroutine started by Close stays blocked for the rest of the process' life.
//
// The schedule is forced from outside the library: the transport reports the end of stream with an
// error that wraps io.EOF and whose Is method (called by the read loop's errors.Is(err, io.EOF),
// i.e. exactly between the done check and the EOF return) parks the read loop until Close has gone
// past its readLoopExited test.
//
// drop into driver/generic ; go test -vet=off -count=1 -run TestHuntE3 ./driver/generic/

import (
	"io"
	"runtime"
	"strings"
	"sync"
	"testing"
	"time"

	"github.com/scrapli/scrapligo/driver/generic"
	"github.com/scrapli/scrapligo/driver/options"
	"github.com/scrapli/scrapligo/transport"
)

type huntE3EOF struct {
	atCheck chan struct{} // closed when the read loop is at errors.Is(err, io.EOF)
	release chan struct{} // closed when the read loop may go on
	once    *sync.Once
}

func (e huntE3EOF) Error() string { return "EOF" }
func (e huntE3EOF) Unwrap() error { return io.EOF }
func (e huntE3EOF) Is(target error) bool {
	if target == io.EOF {
		e.once.Do(func() { close(e.atCheck) })
		<-e.release

		return true
	}

	return false
}

type huntE3Transport struct {
	peerClosed chan struct{}
	closed     chan struct{}
	closeOnce  sync.Once
	eof        huntE3EOF
}

func (t *huntE3Transport) Open(_ *transport.Args) error { return nil }

// Close: by the time the channel calls this, Channel.Close is long past its readLoopExited test.
func (t *huntE3Transport) Close() error {
	t.closeOnce.Do(func() {
		close(t.closed)
		close(t.eof.release)
	})

	return nil
}

func (t *huntE3Transport) IsAlive() bool { return true }

func (t *huntE3Transport) Read(_ int) ([]byte, error) {
	select {
	case <-t.peerClosed:
		return nil, t.eof
	case <-t.closed:
		return nil, io.EOF
	}
}

func (t *huntE3Transport) Write(_ []byte) error { return nil }

func huntE3Leaked() string {
	buf := make([]byte, 1<<20)
	n := runtime.Stack(buf, true)

	for _, g := range strings.Split(string(buf[:n]), "\n\n") {
		if strings.Contains(g, "scrapligo/channel.") {
			return g
		}
	}

	return ""
}

// control (passes; kept first in the file so that it runs before the leak of the next test exists):
// same transport, but Close finds the reader blocked in Read; the forced transport
// close unblocks it, it takes the done signal and everything is gone shortly after Close.
func TestHuntE3ControlCloseWithBlockedReader(t *testing.T) {
	tr := &huntE3Transport{
		peerClosed: make(chan struct{}),
		closed:     make(chan struct{}),
		eof: huntE3EOF{
			atCheck: make(chan struct{}),
			release: make(chan struct{}),
			once:    &sync.Once{},
		},
	}

	d, err := generic.NewDriver("localhost", options.WithCustomTransport(tr))
	if err != nil {
		t.Fatal(err)
	}

	if err = d.Open(); err != nil {
		t.Fatalf("open failed: %v", err)
	}

	time.Sleep(50 * time.Millisecond)

	if err = d.Close(); err != nil {
		t.Fatalf("close failed: %v", err)
	}

	deadline := time.Now().Add(2 * time.Second)

	var g string

	for time.Now().Before(deadline) {
		g = huntE3Leaked()
		if g == "" {
			return
		}

		time.Sleep(20 * time.Millisecond)
	}

	t.Fatalf("control failed: library goroutine still alive:\n%s", g)
}

func TestHuntE3CloseRacingEOFLeaksGoroutine(t *testing.T) {
	tr := &huntE3Transport{
		peerClosed: make(chan struct{}),
		closed:     make(chan struct{}),
		eof: huntE3EOF{
			atCheck: make(chan struct{}),
			release: make(chan struct{}),
			once:    &sync.Once{},
		},
	}

	d, err := generic.NewDriver("localhost", options.WithCustomTransport(tr))
	if err != nil {
		t.Fatal(err)
	}

	if err = d.Open(); err != nil {
		t.Fatalf("open failed: %v", err)
	}

	// the peer closes the stream ...
	close(tr.peerClosed)

	// ... the read loop has seen "not done", holds the EOF and is about to return ...
	select {
	case <-tr.eof.atCheck:
	case <-time.After(3 * time.Second):
		t.Fatal("test setup: read loop never reached its EOF check")
	}

	// ... and the user closes the driver at that very moment.
	closed := make(chan error, 1)

	go func() { closed <- d.Close() }()

	select {
	case err = <-closed:
		if err != nil {
			t.Fatalf("close failed: %v", err)
		}
	case <-time.After(3 * time.Second):
		t.Fatal("close did not return")
	}

	// no library goroutine may outlive the close; give stragglers two generous seconds.
	deadline := time.Now().Add(2 * time.Second)

	var g string

	for time.Now().Before(deadline) {
		g = huntE3Leaked()
		if g == "" {
			return
		}

		time.Sleep(20 * time.Millisecond)
	}

	t.Fatalf("C07 violated: a library goroutine outlives Close (2s after Close returned):\n%s", g)
}
