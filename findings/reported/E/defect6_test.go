package generic_test

// C07 defect 6: Close concurrent with an in-flight operation, graceful path. Close closes the
// channel's Errs channel; from then on Channel.Read's `case err := <-c.Errs: return nil, err`
// fires on every call with a nil error, so the operation never reaches the readLoopExited test,
// never dequeues, and its goroutine (started by the library in SendInputB) keeps polling the dead
// connection until the operation timeout (60s by default, 24h with timeouts disabled). A library
// goroutine outlives the close; on the forced path the very same operation ends at once with
// ErrConnectionError.
//
// drop into driver/generic ; go test -vet=off -count=1 -run TestHuntE6 ./driver/generic/

import (
	"io"
	"runtime"
	"strings"
	"sync"
	"testing"
	"time"

	"github.com/scrapli/scrapligo/driver/generic"
	"github.com/scrapli/scrapligo/driver/options"
	"github.com/scrapli/scrapligo/transport"
)

// huntE6Transport: a device that keeps streaming output (so the reader is never parked in Read
// and Close takes the graceful path); after Close it reports io.EOF.
type huntE6Transport struct {
	closed    chan struct{}
	closeOnce sync.Once
	wrote     chan struct{}
	wroteOnce sync.Once
	blocking  bool
}

func (t *huntE6Transport) Open(_ *transport.Args) error { return nil }

func (t *huntE6Transport) Close() error {
	t.closeOnce.Do(func() { close(t.closed) })

	return nil
}

func (t *huntE6Transport) IsAlive() bool { return true }

func (t *huntE6Transport) Read(_ int) ([]byte, error) {
	if t.blocking {
		<-t.closed

		return nil, io.EOF
	}

	select {
	case <-t.closed:
		return nil, io.EOF
	default:
		return []byte("more output\n"), nil
	}
}

func (t *huntE6Transport) Write(_ []byte) error {
	t.wroteOnce.Do(func() { close(t.wrote) })

	return nil
}

func huntE6OpGoroutine() string {
	buf := make([]byte, 1<<20)
	n := runtime.Stack(buf, true)

	for _, g := range strings.Split(string(buf[:n]), "\n\n") {
		if strings.Contains(g, "channel.(*Channel).SendInputB.func1") {
			return g
		}
	}

	return ""
}

func huntE6Run(t *testing.T, blocking bool) {
	t.Helper()

	tr := &huntE6Transport{
		closed:   make(chan struct{}),
		wrote:    make(chan struct{}),
		blocking: blocking,
	}

	d, err := generic.NewDriver("localhost", options.WithCustomTransport(tr))
	if err != nil {
		t.Fatal(err)
	}

	if err = d.Open(); err != nil {
		t.Fatalf("open failed: %v", err)
	}

	type opResult struct {
		err error
		at  time.Time
	}

	res := make(chan opResult, 1)

	go func() {
		_, opErr := d.Channel.SendInput("show version")
		res <- opResult{opErr, time.Now()}
	}()

	<-tr.wrote
	time.Sleep(50 * time.Millisecond) // the operation is now polling the channel

	if err = d.Close(); err != nil {
		t.Fatalf("close failed: %v", err)
	}

	closedAt := time.Now()

	select {
	case r := <-res:
		t.Logf("operation ended %s after Close with: %v", r.at.Sub(closedAt), r.err)
	case <-time.After(3 * time.Second):
		t.Fatalf(
			"C07 violated: 3s after Close returned the library's operation goroutine is still "+
				"polling the closed channel (it will until the 60s operation timeout):\n%s",
			huntE6OpGoroutine(),
		)
	}
}

// control (passes): reader blocked in Read -> forced path -> operation ends with ErrConnectionError.
func TestHuntE6ControlForcedPath(t *testing.T) {
	huntE6Run(t, true)
}

func TestHuntE6GracefulCloseLeavesOperationPolling(t *testing.T) {
	huntE6Run(t, false)
}
