package netconf_test

// C07 defect 1: NETCONF Driver.Close deadlocks once the NETCONF read loop is parked on its
// unbuffered errs channel, i.e. after the peer closed the stream (or after any transport error)
// while no RPC is in flight to collect the error.
//
// drop into driver/netconf ; go test -vet=off -count=1 -run TestHuntE1 ./driver/netconf/

import (
	"errors"
	"io"
	"runtime"
	"strings"
	"sync"
	"testing"
	"time"

	"github.com/scrapli/scrapligo/driver/netconf"
	"github.com/scrapli/scrapligo/driver/options"
	"github.com/scrapli/scrapligo/transport"
)

type huntE1Item struct {
	b   []byte
	err error
}

// huntE1Transport is a scripted in-memory transport: Read blocks until the test feeds an item or
// the transport is closed (then it reports io.EOF, like a closed socket / pty does).
type huntE1Transport struct {
	in        chan huntE1Item
	closed    chan struct{}
	closeOnce sync.Once
	sticky    error
	mu        sync.Mutex
}

func newHuntE1Transport() *huntE1Transport {
	return &huntE1Transport{in: make(chan huntE1Item, 16), closed: make(chan struct{})}
}

func (t *huntE1Transport) Open(_ *transport.Args) error { return nil }

func (t *huntE1Transport) Close() error {
	t.closeOnce.Do(func() { close(t.closed) })

	return nil
}

func (t *huntE1Transport) IsAlive() bool { return true }

func (t *huntE1Transport) Read(_ int) ([]byte, error) {
	t.mu.Lock()
	sticky := t.sticky
	t.mu.Unlock()

	if sticky != nil {
		return nil, sticky
	}

	select {
	case it := <-t.in:
		if it.err != nil {
			t.mu.Lock()
			t.sticky = it.err
			t.mu.Unlock()
		}

		return it.b, it.err
	case <-t.closed:
		return nil, io.EOF
	}
}

func (t *huntE1Transport) Write(_ []byte) error { return nil }

const huntE1Hello = `<?xml version="1.0" encoding="UTF-8"?>
<hello xmlns="urn:ietf:params:xml:ns:netconf:base:1.0">
<capabilities>
<capability>urn:ietf:params:netconf:base:1.0</capability>
</capabilities>
<session-id>7</session-id>
</hello>]]>]]>`

func huntE1WaitFor(t *testing.T, what string, cond func(stacks string) bool) {
	t.Helper()

	deadline := time.Now().Add(5 * time.Second)

	for time.Now().Before(deadline) {
		buf := make([]byte, 1<<20)
		n := runtime.Stack(buf, true)

		if cond(string(buf[:n])) {
			return
		}

		time.Sleep(5 * time.Millisecond)
	}

	t.Fatalf("test setup: never reached state %q", what)
}

func huntE1GoroutineIn(stacks, fn, state string) bool {
	for _, g := range strings.Split(stacks, "\n\n") {
		if strings.Contains(g, fn) && strings.Contains(strings.SplitN(g, "\n", 2)[0], state) {
			return true
		}
	}

	return false
}

func huntE1Run(t *testing.T, fault error) {
	tr := newHuntE1Transport()

	d, err := netconf.NewDriver("localhost", options.WithCustomTransport(tr))
	if err != nil {
		t.Fatal(err)
	}

	tr.in <- huntE1Item{b: []byte(huntE1Hello)}

	if err = d.Open(); err != nil {
		t.Fatalf("open failed: %v", err)
	}

	// the fault happens while the session is idle (no rpc in flight to collect the error).
	tr.in <- huntE1Item{err: fault}

	// wait until the NETCONF read loop has noticed (deterministic: poll its goroutine state).
	huntE1WaitFor(t, "netconf read loop parked on errs", func(s string) bool {
		return huntE1GoroutineIn(s, "netconf.(*Driver).read", "chan send")
	})

	done := make(chan error, 1)

	go func() { done <- d.Close() }()

	select {
	case <-done:
	case <-time.After(3 * time.Second):
		buf := make([]byte, 1<<20)
		n := runtime.Stack(buf, true)

		t.Fatalf(
			"C07 violated: netconf Driver.Close did not return within 3s after %q on the "+
				"transport (Close blocked on d.done while the read loop is blocked on d.errs)\n%s",
			fault, buf[:n],
		)
	}
}

// state at Close: "after the peer closed the stream".
func TestHuntE1NetconfCloseAfterPeerClosedStream(t *testing.T) {
	huntE1Run(t, io.EOF)
}

// state at Close: "after a transport error".
func TestHuntE1NetconfCloseAfterTransportError(t *testing.T) {
	huntE1Run(t, errors.New("read: connection reset by peer"))
}
