package generic_test

// Defect 2 (property C13): the from-file variants silently drop every command from the first line
// longer than 64 KiB on - the scanner error in util.LoadFileLines is never looked at - so
// "without stop-on-failed every command is sent" does not hold.
//
// Drop into driver/generic and run:
//   go test -vet=off -count=1 -run 'TestHuntH2' ./driver/generic/

import (
	"io"
	"os"
	"path/filepath"
	"strings"
	"sync"
	"testing"
	"time"

	"github.com/scrapli/scrapligo/driver/generic"
	"github.com/scrapli/scrapligo/driver/options"
	"github.com/scrapli/scrapligo/transport"
)

// huntH2Device is a tiny device model: it echoes what it is sent, and on every return character it
// records the received line, prints the reply for that line, and prints the prompt again.
type huntH2Device struct {
	mu     sync.Mutex
	cond   *sync.Cond
	out    []byte
	line   []byte
	lines  []string
	closed bool
	reply  func(line string) string
}

const huntH2Prompt = "router#"

func newHuntH2Device(reply func(string) string) *huntH2Device {
	d := &huntH2Device{reply: reply}
	d.cond = sync.NewCond(&d.mu)

	return d
}

func (d *huntH2Device) Open(_ *transport.Args) error {
	d.mu.Lock()
	defer d.mu.Unlock()

	d.out = append(d.out, []byte(huntH2Prompt)...)
	d.cond.Broadcast()

	return nil
}

func (d *huntH2Device) Close() error {
	d.mu.Lock()
	defer d.mu.Unlock()

	d.closed = true
	d.cond.Broadcast()

	return nil
}

func (d *huntH2Device) IsAlive() bool { return true }

func (d *huntH2Device) Read(n int) ([]byte, error) {
	d.mu.Lock()
	defer d.mu.Unlock()

	for len(d.out) == 0 && !d.closed {
		d.cond.Wait()
	}

	if len(d.out) == 0 {
		return nil, io.EOF
	}

	if n > len(d.out) {
		n = len(d.out)
	}

	b := append([]byte(nil), d.out[:n]...)
	d.out = d.out[n:]

	return b, nil
}

func (d *huntH2Device) Write(b []byte) error {
	d.mu.Lock()
	defer d.mu.Unlock()

	for _, c := range b {
		if c != '\n' {
			d.line = append(d.line, c)
			d.out = append(d.out, c)

			continue
		}

		l := string(d.line)
		d.line = nil
		d.lines = append(d.lines, l)

		d.out = append(d.out, '\n')

		if r := d.reply(l); r != "" {
			d.out = append(d.out, []byte(r+"\n")...)
		}

		d.out = append(d.out, []byte(huntH2Prompt)...)
	}

	d.cond.Broadcast()

	return nil
}

func TestHuntH2FromFileLongLineDropsCommands(t *testing.T) {
	dev := newHuntH2Device(func(line string) string { return "ok" })

	d, err := generic.NewDriver(
		"dummy",
		options.WithCustomTransport(dev),
		options.WithTimeoutOps(20*time.Second),
	)
	if err != nil {
		t.Fatalf("creating driver: %s", err)
	}

	if err = d.Open(); err != nil {
		t.Fatalf("opening driver: %s", err)
	}

	t.Cleanup(func() { _ = d.Close() })

	// a legal text file of three lines; the second is one long line (70000 characters, think of
	// a key or certificate blob pasted on a single line).
	long := "set blob " + strings.Repeat("A", 70000)
	want := []string{"show one", long, "show three"}

	f := filepath.Join(t.TempDir(), "commands.txt")

	err = os.WriteFile(f, []byte(strings.Join(want, "\n")+"\n"), 0o600)
	if err != nil {
		t.Fatal(err)
	}

	m, err := d.SendCommandsFromFile(f)

	dev.mu.Lock()
	got := append([]string(nil), dev.lines...)
	dev.mu.Unlock()

	if err != nil {
		// an error would be an acceptable way to refuse the file; silently sending a prefix of
		// it is not.
		t.Logf("SendCommandsFromFile returned error: %s", err)

		return
	}

	if len(got) != len(want) || len(m.Responses) != len(want) {
		short := make([]string, len(got))
		for i, l := range got {
			if len(l) > 20 {
				l = l[:20] + "..."
			}

			short[i] = l
		}

		t.Fatalf(
			"file has %d command lines, stop-on-failed is off and no error was returned, "+
				"but only %d line(s) reached the device %q and the multi response has %d "+
				"member(s)",
			len(want), len(got), short, len(m.Responses),
		)
	}
}
