package generic_test

// Defect 3 (property C18): SendWithCallbacks can panic (nil pointer dereference) instead of ending
// with a timeout error when the timeout has already run out by the time the read goroutine starts
// (timeout <= 0, or a vanishingly small one). The read goroutine sees the expired context, returns
// and closes the result channel; the caller's select then has two ready cases - the closed result
// channel (yielding a nil *callbackResult) and ctx.Done() - and picks one at random; picking the
// first dereferences nil (sendwithcallbacks.go:212).
//
// NOTE: this is a race between two goroutines inside handleCallbacks that a test cannot force from
// outside without touching the library, so this demonstration is NOT strictly deterministic: it
// repeats the call until the panic shows (measured here: after 200 - 160000 calls, i.e. well
// under a second, with GOMAXPROCS=16 as well as GOMAXPROCS=1) and gives up (passes) after 5s.
//
// Drop into driver/generic and run:
//   go test -vet=off -count=1 -run 'TestHuntH3' ./driver/generic/

import (
	"errors"
	"fmt"
	"io"
	"sync"
	"testing"
	"time"

	"github.com/scrapli/scrapligo/driver/generic"
	"github.com/scrapli/scrapligo/driver/opoptions"
	"github.com/scrapli/scrapligo/driver/options"
	"github.com/scrapli/scrapligo/transport"
	"github.com/scrapli/scrapligo/util"
)

// huntH3Device is a tiny device model: it echoes what it is sent, and on every return character it
// records the received line, prints the reply for that line, and prints the prompt again.
type huntH3Device struct {
	mu     sync.Mutex
	cond   *sync.Cond
	out    []byte
	line   []byte
	lines  []string
	closed bool
	reply  func(line string) string
}

const huntH3Prompt = "router#"

func newHuntH3Device(reply func(string) string) *huntH3Device {
	d := &huntH3Device{reply: reply}
	d.cond = sync.NewCond(&d.mu)

	return d
}

func (d *huntH3Device) Open(_ *transport.Args) error {
	d.mu.Lock()
	defer d.mu.Unlock()

	d.out = append(d.out, []byte(huntH3Prompt)...)
	d.cond.Broadcast()

	return nil
}

func (d *huntH3Device) Close() error {
	d.mu.Lock()
	defer d.mu.Unlock()

	d.closed = true
	d.cond.Broadcast()

	return nil
}

func (d *huntH3Device) IsAlive() bool { return true }

func (d *huntH3Device) Read(n int) ([]byte, error) {
	d.mu.Lock()
	defer d.mu.Unlock()

	for len(d.out) == 0 && !d.closed {
		d.cond.Wait()
	}

	if len(d.out) == 0 {
		return nil, io.EOF
	}

	if n > len(d.out) {
		n = len(d.out)
	}

	b := append([]byte(nil), d.out[:n]...)
	d.out = d.out[n:]

	return b, nil
}

func (d *huntH3Device) Write(b []byte) error {
	d.mu.Lock()
	defer d.mu.Unlock()

	for _, c := range b {
		if c != '\n' {
			d.line = append(d.line, c)
			d.out = append(d.out, c)

			continue
		}

		l := string(d.line)
		d.line = nil
		d.lines = append(d.lines, l)

		d.out = append(d.out, '\n')

		if r := d.reply(l); r != "" {
			d.out = append(d.out, []byte(r+"\n")...)
		}

		d.out = append(d.out, []byte(huntH3Prompt)...)
	}

	d.cond.Broadcast()

	return nil
}

func huntH3Call(d *generic.Driver, cbs []*generic.Callback) (err error, panicked interface{}) {
	defer func() {
		panicked = recover()
	}()

	_, err = d.SendWithCallbacks("", cbs, 0)

	return err, nil
}

func TestHuntH3ExpiredTimeoutPanics(t *testing.T) {
	dev := newHuntH3Device(func(line string) string { return "ok" })

	d, err := generic.NewDriver("dummy", options.WithCustomTransport(dev))
	if err != nil {
		t.Fatalf("creating driver: %s", err)
	}

	if err = d.Open(); err != nil {
		t.Fatalf("opening driver: %s", err)
	}

	t.Cleanup(func() { _ = d.Close() })

	// one callback whose trigger never holds: nothing completes, so the property demands a
	// timeout error, every time.
	cb, err := generic.NewCallback(
		func(_ *generic.Driver, _ string) error { return nil },
		opoptions.WithCallbackContains("this text is never printed"),
		opoptions.WithCallbackComplete(),
	)
	if err != nil {
		t.Fatal(err)
	}

	cbs := []*generic.Callback{cb}

	deadline := time.Now().Add(5 * time.Second)

	for n := 1; time.Now().Before(deadline); n++ {
		opErr, p := huntH3Call(d, cbs)
		if p != nil {
			t.Fatalf(
				"call %d: nothing completes, so SendWithCallbacks must end with a timeout "+
					"error; it panicked instead: %s",
				n, fmt.Sprint(p),
			)
		}

		if !errors.Is(opErr, util.ErrTimeoutError) {
			t.Fatalf("call %d: want timeout error, got %v", n, opErr)
		}
	}

	t.Log("the race did not show within 5s on this machine")
}
