package channel_test

// Defect 2 (property C10): "recognised ssh client failure messages yield a connection error" - when
// the ssh client prints its failure message and exits (what it always does after a fatal error), the
// message is thrown away and Open returns the bare transport read error, which is NOT a
// util.ErrConnectionError.
//
// On Linux the read of a pty whose child has exited fails with EIO ("read /dev/ptmx: input/output
// error"), not io.EOF, so the channel read loop parks that error on c.Errs. Channel.Read looks at
// c.Errs BEFORE it looks at the queue:
//
//	select { case err := <-c.Errs: return nil, err; default: }     // channel/read.go
//	...
//	b := c.Q.Dequeue()
//
// so as soon as the read error is pending, the bytes that were read before it ("ssh: connect to host
// ... No route to host", "Host key verification failed.", "no matching cipher found ...") are never
// handed to authenticateSSH / sshMessageHandler, and `return &result{nil, err}` passes the raw error
// up. Which of the two wins is a race between the read loop (message, ReadDelay, error) and the
// polling login loop; the test forces the losing schedule with a logger that takes 100ms for one
// message (loggers are called synchronously on the opening goroutine). Without any forcing the
// in-memory device below loses ~9 of 10 opens, and the real system transport with
// OpenBin=/bin/sh -c "echo 'ssh: connect to host h port 22: No route to host'" lost 10 of 30.
//
// drop into: channel/     run: go test -vet=off -count=1 -run 'TestHuntG_D2' ./channel/

import (
	"errors"
	"io"
	"strings"
	"sync"
	"testing"
	"time"

	"github.com/scrapli/scrapligo/channel"
	"github.com/scrapli/scrapligo/driver/options"
	"github.com/scrapli/scrapligo/logging"
	"github.com/scrapli/scrapligo/transport"
	"github.com/scrapli/scrapligo/util"
)

var errD2EIO = errors.New("read /dev/ptmx: input/output error")

// d2SSH behaves like the system transport whose ssh child printed one line and exited: the line can
// be read once, every later read fails with EIO.
type d2SSH struct {
	mu      sync.Mutex
	message []byte
	closes  int

	closed chan struct{}
	once   sync.Once
}

func (d *d2SSH) Open(_ *transport.Args) error { return nil }

func (d *d2SSH) Close() error {
	d.mu.Lock()
	d.closes++
	d.mu.Unlock()

	d.once.Do(func() { close(d.closed) })

	return nil
}

func (d *d2SSH) IsAlive() bool { return true }

func (d *d2SSH) Read(_ int) ([]byte, error) {
	select {
	case <-d.closed:
		return nil, io.EOF
	default:
	}

	d.mu.Lock()
	defer d.mu.Unlock()

	if d.message != nil {
		b := d.message
		d.message = nil

		return b, nil
	}

	return nil, errD2EIO
}

func (d *d2SSH) Write(_ []byte) error { return nil }

func (d *d2SSH) GetInChannelAuthType() transport.InChannelAuthType {
	return transport.InChannelAuthSSH
}

func (d *d2SSH) GetSSHArgs() *transport.SSHArgs { return &transport.SSHArgs{} }

func TestHuntG_D2_SSHFailureMessageBeforeReadErrorIsConnectionError(t *testing.T) {
	for _, msg := range []string{
		"ssh: connect to host 10.0.0.1 port 22: No route to host\r\n",
		"Host key verification failed.\r\n",
		"Unable to negotiate with 10.0.0.1 port 22: no matching cipher found. Their offer: aes128-cbc\r\n",
		"alice@10.0.0.1: Permission denied (publickey,password).\r\n",
	} {
		msg := msg

		t.Run(strings.Fields(msg)[0]+"_"+strings.Fields(msg)[1], func(t *testing.T) {
			dev := &d2SSH{message: []byte(msg), closed: make(chan struct{})}

			// a user logger that is slow for one message: while it runs, the read loop reads the
			// message and then the read error
			l, err := logging.NewInstance(
				logging.WithLevel(logging.Debug),
				logging.WithLogger(func(a ...interface{}) {
					for _, x := range a {
						if s, ok := x.(string); ok && strings.Contains(s, "in channel ssh auth") {
							time.Sleep(100 * time.Millisecond)
						}
					}
				}),
			)
			if err != nil {
				t.Fatal(err)
			}

			opts := []util.Option{
				options.WithCustomTransport(dev),
				options.WithAuthUsername("alice"),
				options.WithAuthPassword("s3cr3t"),
				options.WithTimeoutOps(2 * time.Second),
			}

			tr, err := transport.NewTransport(l, "10.0.0.1", "custom", opts...)
			if err != nil {
				t.Fatal(err)
			}

			c, err := channel.NewChannel(l, tr, opts...)
			if err != nil {
				t.Fatal(err)
			}

			res := make(chan error, 1)

			go func() { res <- c.Open() }()

			select {
			case err = <-res:
			case <-time.After(10 * time.Second):
				t.Fatal("watchdog: Open did not return")
			}

			if err == nil {
				t.Fatal("Open succeeded although ssh failed")
			}

			if !errors.Is(err, util.ErrConnectionError) {
				t.Errorf(
					"ssh printed %q and exited; Open must fail with a connection error, got: %v",
					strings.TrimSpace(msg), err,
				)
			}

			dev.mu.Lock()
			closes := dev.closes
			dev.mu.Unlock()

			if closes == 0 {
				t.Errorf("transport not closed after the failed login")
			}
		})
	}
}

// The same thing with the real system transport and no forced schedule: /bin/sh stands in for an
// ssh client that prints its error and exits. Statistical (the race is the library's own), kept
// only as supporting evidence: on the review machine 10 of 30 opens returned the raw EIO.
func TestHuntG_D2b_RealPtyUnforced(t *testing.T) {
	const n = 40

	raw := 0

	for i := 0; i < n; i++ {
		l, _ := logging.NewInstance()

		opts := []util.Option{
			options.WithSystemTransportOpenBin("/bin/sh"),
			options.WithSystemTransportOpenArgsOverride(
				[]string{"-c", "echo 'ssh: connect to host h port 22: No route to host'"},
			),
			options.WithAuthPassword("s3cr3t"),
			options.WithTimeoutOps(3 * time.Second),
		}

		tr, err := transport.NewTransport(l, "h", transport.SystemTransport, opts...)
		if err != nil {
			t.Fatal(err)
		}

		c, err := channel.NewChannel(l, tr, opts...)
		if err != nil {
			t.Fatal(err)
		}

		err = c.Open()
		if err == nil {
			t.Fatal("open succeeded?")
		}

		if strings.Contains(err.Error(), "no such file") || strings.Contains(err.Error(), "not permitted") {
			t.Skipf("no pty / no /bin/sh here: %v", err)
		}

		if !errors.Is(err, util.ErrConnectionError) {
			raw++

			if raw == 1 {
				t.Logf("first raw error: %v", err)
			}
		}
	}

	if raw > 0 {
		t.Errorf("%d of %d opens lost ssh's 'No route to host' and returned the raw read error", raw, n)
	}
}
