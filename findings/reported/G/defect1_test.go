package channel_test

// Defect 1 (property C10): "silence yields a timeout error, and in every failure case the transport
// is closed" - with a ReadDelay of a few milliseconds a failed in-channel login does not return and
// does not close the transport for ReadDelay*ReadDelay/1us (5ms -> 25s, 20ms -> 400s, 1s -> 11 days).
//
// Channel.Open closes the channel when the login failed. Channel.Close hands the read loop a "done"
// token and waits for it
//
//	time.After(c.ReadDelay * (c.ReadDelay / readDelayDivisor))     // channel/channel.go
//
// before it force-closes the transport. That is a Duration multiplied by a Duration: the grace time
// grows with the SQUARE of ReadDelay (62.5ms only for the 250us default). Whenever the read loop sits
// in a blocking transport read - which is exactly the situation after a login that failed because
// the device went silent, and both in-channel-auth transports (system, telnet) read blocking - nobody
// takes the token, so Open neither returns its timeout error nor closes the transport until the
// grace time is over. options.WithReadDelay even documents 5ms as the default value.
//
// drop into: channel/     run: go test -vet=off -count=1 -run 'TestHuntG_D1' ./channel/

import (
	"errors"
	"io"
	"sync"
	"testing"
	"time"

	"github.com/scrapli/scrapligo/channel"
	"github.com/scrapli/scrapligo/driver/options"
	"github.com/scrapli/scrapligo/logging"
	"github.com/scrapli/scrapligo/transport"
	"github.com/scrapli/scrapligo/util"
)

// d1Telnet is a telnet-like device: reads block until there is data (like net.Conn / a pty).
type d1Telnet struct {
	out    chan []byte
	closed chan struct{}
	once   sync.Once

	mu     sync.Mutex
	closes int
}

func (d *d1Telnet) Open(_ *transport.Args) error {
	// the device asks for the user name and then never says anything again
	d.out <- []byte("\r\nUser Access Verification\r\n\r\nUsername: ")

	return nil
}

func (d *d1Telnet) Close() error {
	d.mu.Lock()
	d.closes++
	d.mu.Unlock()

	d.once.Do(func() { close(d.closed) })

	return nil
}

func (d *d1Telnet) nCloses() int {
	d.mu.Lock()
	defer d.mu.Unlock()

	return d.closes
}

func (d *d1Telnet) IsAlive() bool { return true }

func (d *d1Telnet) Read(_ int) ([]byte, error) {
	select {
	case b := <-d.out:
		return b, nil
	case <-d.closed:
		return nil, io.EOF
	}
}

func (d *d1Telnet) Write(_ []byte) error { return nil }

func (d *d1Telnet) GetInChannelAuthType() transport.InChannelAuthType {
	return transport.InChannelAuthTelnet
}

func TestHuntG_D1_SilentLoginTimesOutAndClosesTransport(t *testing.T) {
	const (
		readDelay  = 20 * time.Millisecond // grace time in Close: 20ms * 20000 = 400s
		timeoutOps = 300 * time.Millisecond
		watchdog   = 4 * time.Second
	)

	dev := &d1Telnet{out: make(chan []byte, 8), closed: make(chan struct{})}

	l, _ := logging.NewInstance()

	opts := []util.Option{
		options.WithCustomTransport(dev),
		options.WithAuthUsername("alice"),
		options.WithAuthPassword("s3cr3t"),
		options.WithTimeoutOps(timeoutOps),
		options.WithReadDelay(readDelay),
	}

	tr, err := transport.NewTransport(l, "device", "custom", opts...)
	if err != nil {
		t.Fatal(err)
	}

	c, err := channel.NewChannel(l, tr, opts...)
	if err != nil {
		t.Fatal(err)
	}

	res := make(chan error, 1)
	start := time.Now()

	go func() { res <- c.Open() }()

	select {
	case err = <-res:
	case <-time.After(watchdog):
		// let the goroutines go before we fail
		defer dev.Close() //nolint:errcheck

		t.Fatalf(
			"silent device, TimeoutOps=%s, ReadDelay=%s: Open has not returned after %s and the "+
				"transport has been closed %d times (Close waits ReadDelay*ReadDelay/1us = %s)",
			timeoutOps, readDelay, time.Since(start).Round(time.Millisecond), dev.nCloses(),
			readDelay*(readDelay/1000), //nolint:durationcheck
		)
	}

	if !errors.Is(err, util.ErrTimeoutError) {
		t.Fatalf("silence must yield a timeout error, got: %v", err)
	}

	if dev.nCloses() == 0 {
		t.Fatalf("login failed (%v) but the transport was not closed", err)
	}
}
