package channel_test

// Defect 3 (property C10): "The user name is sent only in answer to a user-name prompt ... at most
// twice per open; a third prompt yields an authentication error" / "opening succeeds exactly when
// the device reaches a shell prompt after asking for each credential at most twice".
//
// The default user-name pattern is (channel/auth.go)
//
//	(?im)^(.*username:)|(.*login:)\s?$
//
// The alternation binds weaker than the anchors, so this reads  ^.*username:  OR  .*login:\s?$ :
// the first alternative has no end anchor at all. Every complete line that merely CONTAINS
// "username:" - followed by any text - is taken for a user-name prompt (the password pattern and the
// second alternative are anchored at the end of the line, which shows the intent). A device that,
// after a successful login, greets with a line such as
//
//	Current username: alice, privilege level 15
//
// (read as a whole line, nothing cut) is therefore answered with the user name once more:
//   - no rejection before: the user name is typed at the shell prompt as if it were a command;
//   - one rejection before (so the device asked for the name twice, which the property allows): the
//     line counts as the third user-name prompt and Open fails with ErrAuthError although the device
//     has admitted us and is sitting at its shell prompt.
//
// drop into: channel/     run: go test -vet=off -count=1 -run 'TestHuntG_D3' ./channel/

import (
	"io"
	"reflect"
	"sync"
	"testing"
	"time"

	"github.com/scrapli/scrapligo/channel"
	"github.com/scrapli/scrapligo/driver/options"
	"github.com/scrapli/scrapligo/logging"
	"github.com/scrapli/scrapligo/transport"
	"github.com/scrapli/scrapligo/util"
)

const (
	d3User = "alice"
	d3Pass = "s3cr3t"
)

// d3Telnet is a scripted telnet device. It asks Username / Password, rejects the first `rejections`
// attempts, then prints its greeting line by line (one read per complete line) and its prompt.
type d3Telnet struct {
	rejections int

	out    chan []byte
	closed chan struct{}
	once   sync.Once

	mu       sync.Mutex
	line     []byte
	lines    []string
	attempts int
	state    string // "user", "pass", "shell"
	closes   int
}

func (d *d3Telnet) Open(_ *transport.Args) error {
	d.state = "user"
	d.out <- []byte("\r\nUser Access Verification\r\n\r\n")
	d.out <- []byte("Username: ")

	return nil
}

func (d *d3Telnet) Close() error {
	d.mu.Lock()
	d.closes++
	d.mu.Unlock()

	d.once.Do(func() { close(d.closed) })

	return nil
}

func (d *d3Telnet) IsAlive() bool { return true }

func (d *d3Telnet) Read(_ int) ([]byte, error) {
	select {
	case b := <-d.out:
		return b, nil
	case <-d.closed:
		return nil, io.EOF
	}
}

func (d *d3Telnet) Write(b []byte) error {
	d.mu.Lock()
	defer d.mu.Unlock()

	for _, c := range b {
		if c != '\n' {
			d.line = append(d.line, c)

			continue
		}

		line := string(d.line)
		d.line = nil
		d.lines = append(d.lines, line)

		switch d.state {
		case "user":
			d.state = "pass"
			d.out <- []byte(line + "\r\n") // the user name is echoed
			d.out <- []byte("Password: ")
		case "pass":
			d.attempts++

			if d.attempts <= d.rejections {
				d.state = "user"
				d.out <- []byte("\r\n% Login invalid\r\n\r\n")
				d.out <- []byte("Username: ")
			} else {
				d.state = "shell"
				d.out <- []byte("\r\n")
				d.out <- []byte("Authorized users only.\r\n")
				d.out <- []byte("Current username: " + d3User + ", privilege level 15\r\n")
				d.out <- []byte("\r\n")
				d.out <- []byte("router#")
			}
		case "shell":
			d.out <- []byte(line + "\r\n")

			if line != "" {
				d.out <- []byte("% Unknown command\r\n")
			}

			d.out <- []byte("router#")
		}
	}

	return nil
}

func (d *d3Telnet) written() []string {
	d.mu.Lock()
	defer d.mu.Unlock()

	return append([]string(nil), d.lines...)
}

func (d *d3Telnet) GetInChannelAuthType() transport.InChannelAuthType {
	return transport.InChannelAuthTelnet
}

func d3Open(t *testing.T, rejections int) (*d3Telnet, error) {
	t.Helper()

	dev := &d3Telnet{
		rejections: rejections,
		out:        make(chan []byte, 256),
		closed:     make(chan struct{}),
	}

	l, _ := logging.NewInstance()

	opts := []util.Option{
		options.WithCustomTransport(dev),
		options.WithAuthUsername(d3User),
		options.WithAuthPassword(d3Pass),
		options.WithTimeoutOps(2 * time.Second),
	}

	tr, err := transport.NewTransport(l, "device", "custom", opts...)
	if err != nil {
		t.Fatal(err)
	}

	c, err := channel.NewChannel(l, tr, opts...)
	if err != nil {
		t.Fatal(err)
	}

	res := make(chan error, 1)

	go func() { res <- c.Open() }()

	select {
	case err = <-res:
	case <-time.After(10 * time.Second):
		t.Fatal("watchdog: Open did not return")
	}

	// give a stray write the time to arrive
	time.Sleep(50 * time.Millisecond)

	return dev, err
}

func TestHuntG_D3_UsernameOnlyToUsernamePrompt(t *testing.T) {
	t.Run("no-rejection", func(t *testing.T) {
		dev, err := d3Open(t, 0)
		if err != nil {
			t.Fatalf("device admitted us after one user name / password, Open failed: %v", err)
		}

		want := []string{d3User, d3Pass}
		if got := dev.written(); !reflect.DeepEqual(got, want) {
			t.Fatalf(
				"the device asked for the user name once and the password once\n"+
					"lines written by the library: %q\nwanted:                       %q",
				got, want,
			)
		}
	})

	t.Run("one-rejection", func(t *testing.T) {
		dev, err := d3Open(t, 1)

		t.Logf("lines written by the library: %q", dev.written())

		if err != nil {
			t.Fatalf(
				"the device asked for each credential twice and then admitted us (it is at "+
					"'router#'), Open must succeed, got: %v",
				err,
			)
		}

		want := []string{d3User, d3Pass, d3User, d3Pass}
		if got := dev.written(); !reflect.DeepEqual(got, want) {
			t.Fatalf("lines written by the library: %q, wanted %q", got, want)
		}
	})
}
