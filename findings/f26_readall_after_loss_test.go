// Finding F26 (property C06): after the transport reported end-of-stream the read loop exits and Channel.Read answers
// every later call with a connection error - but Channel.ReadAll (the public "take everything" read, meant for consoles
// and files) never looks at that state: once the queue is drained it returns (nil, nil) for ever, so a caller polling
// it sees a connection that is merely quiet, never the loss.
//   /verif/findings/run.sh f26_readall_after_loss_test.go channel TestFindingF26
package channel

import (
	"io"
	"sync"
	"testing"
	"time"

	"github.com/scrapli/scrapligo/logging"
	"github.com/scrapli/scrapligo/transport"
)

type f26Impl struct {
	mu   sync.Mutex
	sent bool
}

func (*f26Impl) Open(*transport.Args) error { return nil }
func (*f26Impl) Close() error               { return nil }
func (*f26Impl) IsAlive() bool              { return true }
func (*f26Impl) Write([]byte) error         { return nil }
func (f *f26Impl) Read(int) ([]byte, error) {
	f.mu.Lock()
	defer f.mu.Unlock()

	if !f.sent {
		f.sent = true

		return []byte("last words\n"), nil
	}

	return nil, io.EOF
}

func TestFindingF26(t *testing.T) {
	l, _ := logging.NewInstance()

	tr, err := transport.NewTransport(l, "localhost", transport.FileTransport)
	if err != nil {
		t.Fatal(err)
	}

	tr.Impl = &f26Impl{}

	c, err := NewChannel(l, tr)
	if err != nil {
		t.Fatal(err)
	}

	c.AuthBypass = true
	c.ReadDelay = time.Millisecond

	if err := c.Open(); err != nil {
		t.Fatalf("open: %v", err)
	}

	time.Sleep(100 * time.Millisecond) // the peer has gone away, the read loop has exited

	// control: the one-chunk read reports the loss
	if _, err := c.Read(); err == nil {
		t.Fatal("control failed: Read reports no error after end-of-stream")
	}

	// every later operation also returns an error: poll ReadAll for a while
	deadline := time.Now().Add(500 * time.Millisecond)
	for time.Now().Before(deadline) {
		if _, err := c.ReadAll(); err != nil {
			return
		}

		time.Sleep(5 * time.Millisecond)
	}

	t.Fatal("ReadAll kept answering (nil, nil) after the transport reported end-of-stream: the loss never surfaces")
}
