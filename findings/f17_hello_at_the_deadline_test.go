// Finding F17 (property C05): NETCONF Open panicked (nil result from the closed result channel) when the server hello became complete
// just as the deadline passed (demonstration by a review sub-agent; the schedule is forced with a slow log sink).
//   /verif/findings/run.sh f17_hello_at_the_deadline_test.go driver/netconf TestHuntD5.*
package netconf_test

// Defect 5 (C05, "NETCONF open ... never panics"): the server stalls inside its hello and delivers
// the rest shortly before the connection-wide timeout expires. If the deadline passes between
// the last deadline check of the read-until-prompt loop and the check after it returned, the
// reader goroutine of getServerCapabilities returns without sending a result, the result channel
// is closed, and Open dereferences the nil result: nil pointer panic in the caller's goroutine.
// The schedule is forced with a slow log sink (logging is synchronous in the library), the device
// history is an ordinary "stall at byte k of the hello, then catch up".
//
// drop into driver/netconf ; go test -vet=off -count=1 -run TestHuntD5 ./driver/netconf/

import (
	"fmt"
	"io"
	"strings"
	"sync"
	"testing"
	"time"

	"github.com/scrapli/scrapligo/driver/netconf"
	"github.com/scrapli/scrapligo/driver/options"
	"github.com/scrapli/scrapligo/logging"
	"github.com/scrapli/scrapligo/transport"
)

const (
	huntD5HelloHead = `<?xml version="1.0" encoding="UTF-8"?>
<hello xmlns="urn:ietf:params:xml:ns:netconf:base:1.0">
<capabilities>
<capability>urn:ietf:params:netconf:base:1.0</capability>
</capabilities>
`
	huntD5HelloTail = `<session-id>7</session-id>
</hello>]]>]]>`
)

type huntD5Transport struct {
	in       chan []byte
	closed   chan struct{}
	closeOne sync.Once
}

func (f *huntD5Transport) Open(_ *transport.Args) error { return nil }

func (f *huntD5Transport) Close() error {
	f.closeOne.Do(func() { close(f.closed) })

	return nil
}

func (f *huntD5Transport) IsAlive() bool { return true }

func (f *huntD5Transport) Read(_ int) ([]byte, error) {
	select {
	case b := <-f.in:
		return b, nil
	case <-f.closed:
		return nil, io.EOF
	}
}

func (f *huntD5Transport) Write(_ []byte) error { return nil }

func TestHuntD5OpenPanicsWhenHelloCompletesAtTheDeadline(t *testing.T) {
	const timeout = 600 * time.Millisecond

	ft := &huntD5Transport{
		in:     make(chan []byte, 8),
		closed: make(chan struct{}),
	}

	// a slow log sink: the debug line that reports the last piece of the hello takes 400ms to
	// be written.
	li, err := logging.NewInstance(
		logging.WithLevel(logging.Debug),
		logging.WithLogger(func(a ...interface{}) {
			m := fmt.Sprint(a...)
			if strings.Contains(m, "channel read") && strings.Contains(m, "]]>]]>") {
				time.Sleep(400 * time.Millisecond)
			}
		}),
	)
	if err != nil {
		t.Fatalf("logging instance: %s", err)
	}

	d, err := netconf.NewDriver(
		"dummy",
		options.WithCustomTransport(ft),
		options.WithTimeoutOps(timeout),
		options.WithLogger(li),
	)
	if err != nil {
		t.Fatalf("new driver: %s", err)
	}

	// the device: first part of the hello at once, then silence, the rest 300ms before the
	// deadline.
	ft.in <- []byte(huntD5HelloHead)

	go func() {
		time.Sleep(timeout - 300*time.Millisecond)

		ft.in <- []byte(huntD5HelloTail)
	}()

	start := time.Now()

	var openErr error

	func() {
		defer func() {
			if r := recover(); r != nil {
				t.Fatalf(
					"netconf Open panicked in the caller's goroutine after %s: %v",
					time.Since(start).Round(time.Millisecond), r,
				)
			}
		}()

		openErr = d.Open()
	}()

	// either outcome is acceptable: the hello did arrive (success), or it arrived too late
	// (timeout error). A panic is not.
	t.Logf("open returned %v after %s", openErr, time.Since(start))

	if openErr == nil {
		go d.Close() //nolint:errcheck
	}
}
