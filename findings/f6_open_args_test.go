// Finding F6 (property C19): the platform option transport-system-open-args can never be given a value:
// a YAML sequence decodes to []interface{}, the code asserts []string and panics.
//   /verif/findings/run.sh f6_open_args_test.go platform TestFindingF6
package platform

import "testing"

const f6Def = `---
platform-type: 'f6'
default:
  driver-type: 'generic'
  options:
    - option: transport-system-open-args
      value: ['-v', '-4']
`

func TestFindingF6(t *testing.T) {
	defer func() {
		if r := recover(); r != nil {
			t.Fatalf("a definition using transport-system-open-args with a list of strings panics: %v", r)
		}
	}()
	p, err := NewPlatform([]byte(f6Def), "localhost")
	if err != nil {
		t.Fatalf("unexpected error: %v", err)
	}
	d, err := p.GetGenericDriver()
	if err != nil {
		t.Fatal(err)
	}
	_ = d
}
