#!/bin/sh
# usage: findings/run.sh <test-file> <package-dir-in-repo> <TestName> [repo]
# runs an in-package demonstration test against the real code through `go test -overlay` (writes nothing to the repo)
set -e
here=$(cd "$(dirname "$0")" && pwd)
repo=${4:-/repo}
export GOFLAGS=-mod=mod GOPROXY=off GOSUMDB=off GOTOOLCHAIN=local
ov=$(mktemp /var/tmp/ov.XXXXXX.json)
printf '{"Replace": {"%s/%s/zz_finding_test.go": "%s/%s"}}' "$repo" "$2" "$here" "$1" > $ov
cd $repo && go test -overlay $ov -vet=off -count=1 -timeout 60s -run "^$3\$" ./$2/ ; rc=$?
rm -f $ov
exit $rc
