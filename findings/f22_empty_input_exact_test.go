// Finding F22 (properties C12 / C01): with WithExactMatchInput an empty command / an interactive event with an empty input timed out and
// its return was never written (demonstration by a review sub-agent).
//   /verif/findings/run.sh f22_empty_input_exact_test.go driver/generic TestHuntD4.*
package generic_test

// Defect 4 (C01 "for any ... input-matching mode", C12 "forall event lists"): with exact input
// matching an empty input (a bare return: the empty command, or the "just press enter" event of
// the library's own SendInteractive examples) is "waited for as echo": ReadUntilExplicit does not
// return until at least one more chunk arrives from the device, and a device that is waiting for
// the return sends nothing - the operation times out and the return is never sent. The fuzzy
// reader has an explicit len(input)==0 short cut, the exact reader does not.
//
// drop into: driver/generic/    run: go test -vet=off -count=1 -run 'TestHuntD4' ./driver/generic/

import (
	"strings"
	"sync"
	"testing"
	"time"

	"github.com/scrapli/scrapligo/channel"
	"github.com/scrapli/scrapligo/driver/generic"
	"github.com/scrapli/scrapligo/driver/opoptions"
	"github.com/scrapli/scrapligo/driver/options"
	"github.com/scrapli/scrapligo/transport"
	"github.com/scrapli/scrapligo/util"
)

const huntD4Prompt = "sw1#"

type huntD4Dev struct {
	mu sync.Mutex

	out     [][]byte
	line    []byte
	confirm bool
	lines   []string
}

func (d *huntD4Dev) Open(_ *transport.Args) error { return nil }
func (d *huntD4Dev) Close() error                 { return nil }
func (d *huntD4Dev) IsAlive() bool                { return true }

func (d *huntD4Dev) Read(n int) ([]byte, error) {
	d.mu.Lock()
	defer d.mu.Unlock()

	if len(d.out) == 0 {
		d.mu.Unlock()
		time.Sleep(time.Millisecond)
		d.mu.Lock()

		return nil, nil
	}

	b := d.out[0]

	if len(b) > n {
		d.out[0] = b[n:]
		b = b[:n]
	} else {
		d.out = d.out[1:]
	}

	return b, nil
}

func (d *huntD4Dev) Write(b []byte) error {
	d.mu.Lock()
	defer d.mu.Unlock()

	for _, ch := range b {
		if ch != '\n' {
			d.line = append(d.line, ch)
			d.out = append(d.out, []byte{ch})

			continue
		}

		line := string(d.line)
		d.line = nil
		d.lines = append(d.lines, line)

		switch {
		case d.confirm:
			d.confirm = false
			d.out = append(d.out, []byte("\r\n"+huntD4Prompt))
		case line == "clear logging":
			d.confirm = true
			d.out = append(d.out, []byte("\r\nClear logging buffer [confirm]"))
		case line == "show clock":
			d.out = append(d.out, []byte("\r\n*10:11:12.000 UTC Mon Oct 5 2026\r\n"+huntD4Prompt))
		default:
			d.out = append(d.out, []byte("\r\n"+huntD4Prompt))
		}
	}

	return nil
}

func huntD4Driver(t *testing.T, dev *huntD4Dev) *generic.Driver {
	t.Helper()

	d, err := generic.NewDriver(
		"dummy",
		options.WithCustomTransport(dev),
		options.WithTimeoutOps(2*time.Second),
	)
	if err != nil {
		t.Fatalf("new driver: %v", err)
	}

	err = d.Open()
	if err != nil {
		t.Fatalf("open: %v", err)
	}

	return d
}

func huntD4Commands(t *testing.T, opts ...util.Option) {
	t.Helper()

	dev := &huntD4Dev{}
	d := huntD4Driver(t, dev)

	type res struct {
		s   []string
		err error
	}

	done := make(chan res, 1)

	go func() {
		m, err := d.SendCommands([]string{"show clock", "", "show clock"}, opts...)
		if err != nil {
			done <- res{err: err}

			return
		}

		var s []string
		for _, r := range m.Responses {
			s = append(s, r.Result)
		}

		done <- res{s: s}
	}()

	select {
	case r := <-done:
		if r.err != nil {
			t.Fatalf("SendCommands: %v", r.err)
		}

		want := []string{"*10:11:12.000 UTC Mon Oct 5 2026", "", "*10:11:12.000 UTC Mon Oct 5 2026"}
		if strings.Join(r.s, "|") != strings.Join(want, "|") {
			t.Fatalf("results %q, want %q", r.s, want)
		}
	case <-time.After(15 * time.Second):
		t.Fatalf("watchdog: SendCommands did not return")
	}
}

func huntD4Interactive(t *testing.T, opts ...util.Option) {
	t.Helper()

	dev := &huntD4Dev{}
	d := huntD4Driver(t, dev)

	// the events of examples/generic_driver/basics/main.go (the expected response written as a
	// proper regular expression).
	events := []*channel.SendInteractiveEvent{
		{ChannelInput: "clear logging", ChannelResponse: `\[confirm\]`, HideInput: false},
		{ChannelInput: "", ChannelResponse: "#", HideInput: false},
	}

	type res struct {
		s   string
		err error
	}

	done := make(chan res, 1)

	go func() {
		r, err := d.SendInteractive(events, opts...)
		if err != nil {
			done <- res{err: err}

			return
		}

		done <- res{s: r.Result}
	}()

	select {
	case r := <-done:
		dev.mu.Lock()
		t.Logf("lines the device received: %q", dev.lines)
		dev.mu.Unlock()

		if r.err != nil {
			t.Fatalf("SendInteractive: %v", r.err)
		}

		want := "clear logging\nClear logging buffer [confirm]\n" + huntD4Prompt
		if r.s != want {
			t.Fatalf("result %q, want %q", r.s, want)
		}
	case <-time.After(15 * time.Second):
		t.Fatalf("watchdog: SendInteractive did not return")
	}
}

// sanity: fuzzy mode handles the very same inputs.
func TestHuntD4EmptyCommandFuzzy(t *testing.T)     { huntD4Commands(t) }
func TestHuntD4EmptyInteractiveFuzzy(t *testing.T) { huntD4Interactive(t) }

func TestHuntD4EmptyCommandExact(t *testing.T) {
	huntD4Commands(t, opoptions.WithExactMatchInput())
}

func TestHuntD4EmptyInteractiveExact(t *testing.T) {
	huntD4Interactive(t, opoptions.WithExactMatchInput())
}
