#!/bin/sh
cd "$(dirname "$0")"
exec python3 tools/selftest.py "$@"
