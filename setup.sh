#!/bin/sh
# builds /verif/bin/govc offline from /verif/govc (vendored x/tools)
set -e
cd "$(dirname "$0")/govc"
export GOFLAGS=-mod=vendor GOPROXY=off GOSUMDB=off GOTOOLCHAIN=local CGO_ENABLED=0
mkdir -p ../bin
go build -o ../bin/govc .
for s in z3 z3-new cvc5; do command -v $s >/dev/null || echo "warning: solver $s missing"; done
echo "setup ok"
